"""C17 - no datagram, kernel event or send failure can stop or wedge the daemon.  (DESIGN.md section 3, C17)

A legitimate session between A and B is run step by step through the real main_loop.  Before every
step, every element of a hostile corpus is injected (each combination on its own copy of the world);
sendto / netlink failures are injected at every call index.  Oracle: main_loop is only ever left by the
harness's own stop exception, the iteration executes a bounded number of lines, and the legitimate
session still completes afterwards with mirror-image CHILD_SAs."""
import collections
import json
import struct
import sys

from harness import seams  # noqa
from harness.runner import Check, jdec
from harness import protocol as P
from harness import scenarios as S
from harness import forge as F
from harness import kernel as K
from harness.continuous import ContinuousWorld
from harness.world import State, HarnessError, Wedged as WorldWedged, world_digest

ck = Check('C17', 'fault_enumeration')
LINE_CAP = 3_000_000
# bounded time is judged by the number of lines executed (above); the CPU watchdog of the harness is only the last resort
# here, and a traced iteration is slow: give it room, or a busy machine turns a legitimate 1.5-million-line pass into a 'hang'
import harness.world as _hw
_hw.ITERATION_WATCHDOG_S = max(_hw.ITERATION_WATCHDOG_S, 90.0)
STRANGER = '10.9.9.9'


# ------------------------------------------------------------------ the legitimate session

SESSION = [('acquire', 'A', 0, 0), 'drain', ('acquire', 'B', 0, 0), 'drain', ('soft', 'A'), 'drain', ('rekey', 'B'), 'drain',
           ('hard', 'A'), 'drain', ('dpd', 'A'), 'drain']


def legit_orders():
    """other orders of the same legitimate operations (who initiated, who rekeys first, what has or has not been sent
    before): none of them is hostile, each has to run through with both daemons alive and in agreement at the end"""
    import itertools
    ops = [('soft', 'A'), ('soft', 'B'), ('rekey', 'A'), ('rekey', 'B'), ('hard', 'A'), ('hard', 'B'), ('dpd', 'A'), ('dpd', 'B'),
           ('acquire', 'A', 0, 0), ('acquire', 'B', 0, 0)]
    for first in ('A', 'B'):
        for seq in itertools.permutations(ops, 2 if ck.quick else 3):
            out = [('acquire', first, 0, 0), 'drain']
            for op in seq:
                out += [op, 'drain']
            yield out


def outage_cases():
    return [(kind, victim) for kind in ('dpd', 'rekey_ike', 'soft', 'hard') for victim in ('A', 'B')]


def run_outage(case):
    """one direction of the path is down for a while: everything the victim sends is lost until it gives its IKE_SA up (in
    the timer sweep); the other side, which noticed nothing, then sends on that IKE_SA.  Both daemons stay alive, and
    when the path is back a fresh negotiation succeeds."""
    kind, victim = case
    other = 'B' if victim == 'A' else 'A'
    w = S.new_world(S.base_confs())
    w.step(('acquire', 'A', 0, 0))
    w.deliver_all()
    ep = w.endpoints[victim]
    if kind in ('soft', 'hard'):
        w.step(('expire', victim, bytes(ep.controller.ike_sas[0].child_sas[0].inbound_spi), kind == 'hard'))
    else:
        w.step(('due', victim, 0, kind))

    def dead():
        return [('loop-exit:%s' % e.dead_reason[0], '%s left main_loop of %s (%s outage, %s outstanding): %s' % (
            e.dead_reason[0], n, victim, kind, e.dead_reason[1][:200])) for n, e in w.endpoints.items() if not e.alive]
    for _ in range(60):
        for d in list(w.net):
            w.step(('drop', d.id) if d.sender == victim else ('deliver', d.id))
        if dead():
            return dead()
        if not ep.controller.ike_sas:
            break
        dl = P.next_retransmit_deadline(w)
        w.step(('tick', max(0.0, dl - w.clock) + 0.01) if dl is not None else ('tick', 1.0))
    if ep.controller.ike_sas:
        return [('outage-never-given-up', '%s still holds %s after 60 rounds of lost transmissions' % (
            victim, [s.state.name for s in ep.controller.ike_sas]))]
    # the path is back; the other side uses the IKE_SA it still believes in
    o = w.endpoints[other]
    for i, s in enumerate(o.controller.ike_sas):
        if s.state == State.ESTABLISHED:
            w.step(('due', other, i, 'dpd'))
            break
    for k in range(60):
        for d in list(w.net):
            w.step(('deliver', d.id))
        if dead():
            return dead()
        w.step(('tick', 1.0))
    if dead():
        return dead()
    w.step(('acquire', victim, 0, 0))
    for k in range(40):
        if not w.net:
            break
        w.step(('deliver', w.net[0].id))
    if dead():
        return dead()
    if not (P.established_pairs(w.endpoints['A']) & P.established_pairs(w.endpoints['B'])):
        return [('no-service-after-outage', 'after the outage a fresh negotiation started by %s does not establish' % victim)]
    return []


def run_legit(session):
    w = S.new_world(S.base_confs())
    for ev in session_events(w, session=session):
        w.step(ev)
        for n, e in w.endpoints.items():
            if not e.alive:
                return [('loop-exit:%s' % e.dead_reason[0], '%s left main_loop of %s after %r: %s' % (
                    e.dead_reason[0], n, ev[:2], e.dead_reason[1][:200]))]
    a, b = w.endpoints['A'], w.endpoints['B']
    if P.established_pairs(a) != P.established_pairs(b):
        return [('legit-session-ends-in-disagreement', 'established IKE_SAs: A %d, B %d' % (
            len(P.established_pairs(a)), len(P.established_pairs(b))))]
    return []


def session_events(w, start=0, session=None):
    """concrete events of the reference session from item index `start`"""
    for item in (SESSION if session is None else session)[start:]:
        if item == 'drain':
            guard = 0
            while w.net:
                guard += 1
                if guard > 60:
                    return
                yield ('deliver', w.net[0].id)
        elif item[0] == 'acquire':
            yield item
        else:
            ep = w.endpoints[item[1]]
            cands = [(i, s) for i, s in enumerate(ep.controller.ike_sas) if s.state == State.ESTABLISHED]
            if not cands:
                return
            i, sa = cands[-1]
            if item[0] in ('soft', 'hard'):
                if not sa.child_sas:
                    return
                yield ('expire', item[1], bytes(sa.child_sas[0].inbound_spi), item[0] == 'hard')
            elif item[0] == 'rekey':
                yield ('due', item[1], i, 'rekey_ike')
            elif item[0] == 'dpd':
                yield ('due', item[1], i, 'dpd')


def session_positions():
    """worlds before every step of the session: list of (index, world-copy, remaining-session resume info)"""
    w = S.new_world(S.base_confs())
    w.sent_log = []
    out = [(0, w.fork())]
    n = 0
    for ev in session_events(w):
        w.step(ev)
        n += 1
        out.append((n, w.fork()))
    return out


def finish_session(w):
    """complete the legitimate session from wherever w is: deliver what is in flight, then run the
    whole trigger list again (triggers that are impossible in the current state are skipped)"""
    guard = 0
    while w.net and guard < 80:
        guard += 1
        w.step(('deliver', w.net[0].id))
    for ev in session_events(w):
        w.step(ev)
    return w


def healthy(w):
    """both endpoints alive, one established IKE_SA pair, mirror-equal CHILD_SAs, SAD == tracked"""
    probs = []
    for n, ep in w.endpoints.items():
        if not ep.alive:
            probs.append('%s dead: %s %s' % (n, ep.dead_reason[0], ep.dead_reason[1][:120]))
    if probs:
        return probs
    a, b = w.endpoints['A'], w.endpoints['B']
    pa, pb = P.established_pairs(a), P.established_pairs(b)
    if not pa or pa != pb:
        probs.append('established IKE_SAs: A %s, B %s' % (sorted(x[0].hex() for x in pa), sorted(x[0].hex() for x in pb)))
    elif P.child_pairs(a) != P.child_pairs(b, mirror=True) or not P.child_pairs(a):
        probs.append('CHILD_SAs are not mirror images: A %d, B %d' % (len(P.child_pairs(a)), len(P.child_pairs(b))))
    for n, ep in w.endpoints.items():
        o, m = P.sad_diff(ep)
        if o or m:
            probs.append('%s: SAD differs from tracked CHILD_SAs' % n)
    return probs


# ------------------------------------------------------------------ line counting (bounded time, no wedge)

class Wedged(BaseException):
    pass


def count_lines(fn):
    """runs fn() counting line events in the repository's modules; aborts beyond LINE_CAP"""
    n = [0]
    repo = seams.REPO

    def tracer(frame, event, arg):
        if not frame.f_code.co_filename.startswith(repo):
            return None

        def local(frame, event, arg):
            if event == 'line':
                n[0] += 1
                if n[0] > LINE_CAP:
                    raise Wedged()
            return local
        return local
    sys.settrace(tracer)
    try:
        fn()
    finally:
        sys.settrace(None)
    return n[0]


# ------------------------------------------------------------------ hostile corpus

def unauth_corpus(w, target):
    """hostile datagrams anybody can send: (label, bytes, src)"""
    ep = w.endpoints[target]
    peer = S.IP_B if target == 'A' else S.IP_A
    live = [(bytes(s.spi_i), bytes(s.spi_r)) for s in ep.controller.ike_sas] or [(b'\x07' * 8, b'\x08' * 8)]
    si, sr = live[-1]
    out = []
    add = lambda lab, data, src=peer: out.append((lab, data, src))
    for n in (0, 1, 27):
        add('short-%d' % n, b'\x21' * n)
    for n in (0, 27):
        add('short-%d-from-stranger' % n, b'\0' * n, STRANGER)
    # header only, every exchange type / flag, live and unknown SPIs
    for exch in (34, 35, 36, 37, 0, 255):
        for flags in (0, 0x08, 0x20, 0x28, 0xFF):
            add('header-only:exch=%d:flags=%02x:live-spi' % (exch, flags), F.clear(si, sr, exch, flags, 0))
    for flags in (0, 0x08):
        add('init-req-spi-zero:flags=%02x' % flags, F.clear(b'\0' * 8, b'\0' * 8, 34, flags, 0))
        add('init-req-spi-zero-from-stranger:flags=%02x' % flags, F.clear(b'\0' * 8, b'\0' * 8, 34, flags, 0), STRANGER)
    add('header-only:unknown-spi', F.clear(b'\xaa' * 8, b'\xbb' * 8, 37, 0x08, 0))
    add('length-field-lies', F.hdr(si, sr, 0, 37, 0x08, 0, 5000))
    add('version-3', F.clear(si, sr, 37, 0x08, 0, version=0x30))
    # generic payload chain trouble (cleartext, addressed to a live SPI and as IKE_SA_INIT request)
    for exch, lab in ((34, 'as-init-req'), (36, 'to-live-spi')):
        s_i, s_r, fl = (b'\xcc' * 8, b'\0' * 8, 0x08) if exch == 34 else (si, sr, 0x08 if not ep.controller.ike_sas or not ep.controller.ike_sas[-1].is_initiator else 0)
        add('payload-len-0:unknown-type:%s' % lab, F.clear_raw(s_i, s_r, exch, fl, 0, 1, struct.pack('>BBH', 1, 0, 0)))
        add('payload-len-3:%s' % lab, F.clear_raw(s_i, s_r, exch, fl, 0, 33, struct.pack('>BBH', 0, 0, 3)))
        add('payload-len-beyond-end:%s' % lab, F.clear_raw(s_i, s_r, exch, fl, 0, 40, struct.pack('>BBH', 0, 0, 400) + b'x' * 20))
        add('critical-unknown-payload:%s' % lab, F.clear_raw(s_i, s_r, exch, fl, 0, 200, struct.pack('>BBH', 0, 0x80, 8) + b'abcd'))
        add('sa-payload-3-octets:%s' % lab, F.clear(s_i, s_r, exch, fl, 0, [(F.SA, b'\0\0\0')]))
        add('sk-payload-garbage:%s' % lab, F.clear(s_i, s_r, exch, fl, 0, [(F.SK, b'\x55' * 40)]))
        add('sk-payload-empty:%s' % lab, F.clear(s_i, s_r, exch, fl, 0, [(F.SK, b'')]))
        add('vendor-id-binary:%s' % lab, F.clear(s_i, s_r, exch, fl, 0, [(F.VENDOR, b'\xff\xfe\x80binary')]))
        add('id-ipv4-wrong-length:%s' % lab, F.clear(s_i, s_r, exch, fl, 0, [(F.IDi, b'\x01\0\0\0' + b'\x01\x02\x03')]))
        add('id-fqdn-not-utf8:%s' % lab, F.clear(s_i, s_r, exch, fl, 0, [(F.IDi, b'\x02\0\0\0' + b'\xff\xfe\xfd')]))
        # substructures whose own length field is 0 / smaller than their header (inside a well-formed payload)
        for tstype in (7, 8, 9, 0, 255):
            add('ts-selector-len0-type%d:%s' % (tstype, lab), F.clear(s_i, s_r, exch, fl, 0, [(F.TSi, b'\x01\0\0\0' + struct.pack('>BBHHH', tstype, 6, 0, 0, 65535) + b'\0' * 8)]))
            add('ts-selector-len4-type%d:%s' % (tstype, lab), F.clear(s_i, s_r, exch, fl, 0, [(F.TSr, b'\x02\0\0\0' + struct.pack('>BBH', tstype, 6, 4) * 2)]))
        add('sa-proposal-len0:%s' % lab, F.clear(s_i, s_r, exch, fl, 0, [(F.SA, struct.pack('>BBH', 0, 0, 0) + b'\x01\x01\x00\x01' + b'\0' * 8)]))
        add('sa-transform-len0:%s' % lab, F.clear(s_i, s_r, exch, fl, 0, [(F.SA, struct.pack('>BBH', 0, 0, 20) + b'\x01\x01\x00\x02' + struct.pack('>BBH', 3, 0, 0) + b'\x01\0\0\x0c' + struct.pack('>BBH', 0, 0, 0))]))
        add('sa-transform-attr-odd:%s' % lab, F.clear(s_i, s_r, exch, fl, 0, [(F.SA, struct.pack('>BBH', 0, 0, 19) + b'\x01\x01\x00\x01' + struct.pack('>BBH', 0, 0, 11) + b'\x01\0\0\x0c\x80\x0e\x01')]))
        add('notify-spi-size-lies:%s' % lab, F.clear(s_i, s_r, exch, fl, 0, [(F.NOTIFY, struct.pack('>BBH', 1, 200, 16393) + b'ab')]))
        add('notify-invalid-ke-short:%s' % lab, F.clear(s_i, s_r, exch, fl, 0, [(F.NOTIFY, F.n_body(17, b'\x13'))]))
        add('notify-invalid-ke-empty:%s' % lab, F.clear(s_i, s_r, exch, fl, 0, [(F.NOTIFY, F.n_body(17, b''))]))
        add('notify-cookie-empty:%s' % lab, F.clear(s_i, s_r, exch, fl, 0, [(F.NOTIFY, F.n_body(16390, b''))]))
        add('delete-spi-size-0-count-9:%s' % lab, F.clear(s_i, s_r, exch, fl, 0, [(F.DELETE, struct.pack('>BBH', 3, 0, 9))]))
        add('auth-empty:%s' % lab, F.clear(s_i, s_r, exch, fl, 0, [(F.AUTH, b'')]))
        add('ts-bad-selector:%s' % lab, F.clear(s_i, s_r, exch, fl, 0, [(F.TSi, b'\x01\0\0\0' + b'\x07\x06\x00\x08\0\0\xff\xff')]))
        add('delete-65535-spis-x3:%s' % lab, F.clear(s_i, s_r, exch, fl, 0, [(F.DELETE, struct.pack('>BBH', 3, 4, 65535))] * 3))
        add('notify-only:%s' % lab, F.clear(s_i, s_r, exch, fl, 0, [(F.NOTIFY, F.n_body(16390, b'c' * 32))]))
        add('nonce-too-short:%s' % lab, F.clear(s_i, s_r, exch, fl, 0, [(F.NONCE, b'abc')]))
        add('ke-2-octets:%s' % lab, F.clear(s_i, s_r, exch, fl, 0, [(F.KE, b'\0\x13')]))
    # a real-looking IKE_SA_INIT request (copy of the one A sent) from various places
    init_req = next((d for d in w.sent_log if d.data[18] == 34 and not d.data[19] & 0x20), None)
    if init_req is not None:
        add('init-req-from-stranger', init_req.data, STRANGER)
        m = bytearray(init_req.data)
        add('init-req-copy-from-peer', bytes(m), peer)
        if ep.controller.ike_sas:
            m[0:8] = bytes(ep.controller.ike_sas[-1].peer_spi)
            add('init-req-with-existing-spi', bytes(m), peer)
        m2 = bytearray(init_req.data)
        m2[19] |= 0x20
        add('init-response-out-of-the-blue', bytes(m2), peer)
        add('init-req-truncated-half', init_req.data[:len(init_req.data) // 2], peer)
    # bit-flipped / truncated copies of the latest protected datagram addressed to the target
    prot = [d for d in w.sent_log if d.sender != target and d.data[18] != 34]
    for d in prot[-1:]:
        for pos in (17, 18, 19, 23, 27, 30, 40, len(d.data) - 1):
            if pos < len(d.data):
                m = bytearray(d.data)
                m[pos] ^= 0x40
                add('bitflip-authentic:pos%d' % (pos if pos < 48 else -1), bytes(m))
        add('truncated-authentic', d.data[:-5])
        add('authentic-from-stranger', d.data, STRANGER)
    return out


def auth_corpus(w, target):
    """well-protected but malformed / unexpected messages from the authenticated peer (executed: expected ID)"""
    ep = w.endpoints[target]
    peer = S.IP_B if target == 'A' else S.IP_A
    out = []
    sas = [s for s in ep.controller.ike_sas if s.peer_crypto is not None and int(s.state) in P.ESTABLISHED_RANGE]
    if not sas:
        return out
    sa = sas[-1]
    keys = F.Keys(sa.peer_crypto)
    si, sr = bytes(sa.spi_i), bytes(sa.spi_r)
    fl = 0 if sa.is_initiator else 0x08
    mid = sa.peer_msg_id

    def add(lab, exch, payloads=None, first=None, inner=None, flags=fl, m=mid):
        out.append((lab, F.protect(si, sr, exch, flags, m, payloads, keys, first_inner=first, inner=inner), peer))
    add('auth:info-vendor-binary', 37, [(F.VENDOR, b'\xff\xfe\x80')])
    add('auth:info-id-ipv4-wrong-length', 37, [(F.IDi, b'\x01\0\0\0\x01\x02\x03')])
    add('auth:info-id-ipv6-wrong-length', 37, [(F.IDr, b'\x05\0\0\0\x01\x02\x03')])
    add('auth:info-id-fqdn-not-utf8', 37, [(F.IDi, b'\x02\0\0\0\xff\xfe')])
    add('auth:info-delete-spi-size-lies', 37, [(F.DELETE, struct.pack('>BBH', 3, 200, 2) + b'ab')])
    add('auth:info-delete-65535', 37, [(F.DELETE, struct.pack('>BBH', 3, 4, 65535))])
    add('auth:info-unknown-critical', 37, [(250, b'zz')])
    add('auth:info-inner-chain-truncated', 37, None, first=41, inner=struct.pack('>BBH', 0, 0, 200) + b'xx')
    add('auth:info-inner-len-0', 37, None, first=1, inner=struct.pack('>BBH', 1, 0, 0))
    for tstype in (7, 9):
        add('auth:info-ts-selector-len0-type%d' % tstype, 37, [(F.TSi, b'\x01\0\0\0' + struct.pack('>BBHHH', tstype, 6, 0, 0, 65535) + b'\0' * 8)])
    add('auth:info-notify-invalid-ke-short', 37, [(F.NOTIFY, F.n_body(17, b'\x13'))])
    add('auth:info-sa-proposal-len0', 37, [(F.SA, struct.pack('>BBH', 0, 0, 0) + b'\x01\x01\x00\x01' + b'\0' * 8)])
    add('auth:ccsa-empty', 36, [])
    add('auth:ccsa-sa-only', 36, [(F.SA, b'\0\0\0\x08\x01\x03\x04\x00')])
    add('auth:ccsa-ts-family-mix', 36, [(F.TSi, b'\x01\0\0\0' + struct.pack('>BBHHH4s4s', 8, 0, 16, 0, 65535, b'\1\1\1\1', b'\2\2\2\2')),
                                         (F.TSr, b'\x01\0\0\0' + struct.pack('>BBHHH4s4s', 7, 0, 16, 0, 65535, b'\1\1\1\1', b'\2\2\2\2'))])
    add('auth:ccsa-ke-unknown-group', 36, [(F.SA, b'\0\0\0\x0c\x01\x01\x00\x01\0\0\0\x08\x04\0\0\x63'), (F.NONCE, b'n' * 16),
                                            (F.KE, b'\0\x63\0\0' + b'k' * 8)])
    add('auth:ccsa-rekey-notify-short-spi', 36, [(F.NOTIFY, F.n_body(16393, b'', 3, b'\x01')), (F.NONCE, b'n' * 16)])
    # a genuine CREATE_CHILD_SA request of the peer, as another implementation might send it: the SPI of its ESP / AH proposal
    # has a size other than 4 octets (RFC 7296 3.3.1 makes the size a field), everything else untouched
    genuine = [d for d in w.sent_log if d.sender != target and d.data[18] == 36 and not d.data[19] & 0x20
               and d.data[0:8] == si and d.data[8:16] == sr]
    for d in genuine[-1:]:
        try:
            first, inner = F.unprotect(d.data, keys)
            pl = F.split_chain(first, inner)
        except ValueError:
            continue
        for size, spi in ((8, b'\x11' * 8), (0, b''), (1, b'\x22'), (16, b'\x33' * 16)):
            new = []
            for t, body in pl:
                if t == F.SA and len(body) >= 8 and body[5] in (2, 3):
                    old = body[6]
                    rest = body[8 + old:]
                    body = body[:2] + struct.pack('>H', 8 + size + len(rest)) + body[4:6] + bytes([size, body[7]]) + spi + rest
                new.append((t, body))
            add('auth:ccsa-genuine-with-%d-octet-child-spi' % size, 36, new)
    add('auth:auth-exchange-again', 35, [(F.IDi, b'\x02\0\0\0x'), (F.AUTH, b'\x02\0\0\0' + b'a' * 32)])
    add('auth:unknown-exchange-200', 200, [])
    add('auth:info-response-unexpected', 37, [], flags=fl | 0x20, m=sa.my_msg_id)
    add('auth:ccsa-response-invalid-ke-1-octet', 36, [(F.NOTIFY, F.n_body(17, b'\x13'))], flags=fl | 0x20, m=sa.my_msg_id)
    add('auth:info-response-with-delete', 37, [(F.DELETE, F.d_body(3, [b'\1\2\3\4']))], flags=fl | 0x20, m=sa.my_msg_id)
    return out


def kernel_corpus(w, target):
    """hostile / odd kernel events: (label, raw netlink bytes)"""
    ep = w.endpoints[target]
    a, b = ep.addrs[0], (w.endpoints['B' if target == 'A' else 'A'].addrs[0])
    import ipaddress
    stranger = ipaddress.ip_address(STRANGER)
    sel = K.enc_selector(a, b, 0, 0, 6, 32, 32)
    out = [('acquire-unknown-policy-index', K.enc_acquire(a, b, sel, 0x7ffff9)),
           ('acquire-unknown-peer-address', K.enc_acquire(a, stranger, K.enc_selector(a, stranger, 0, 0, 6, 32, 32), 9)),
           ('acquire-unknown-local-address', K.enc_acquire(stranger, b, K.enc_selector(stranger, b, 0, 0, 6, 32, 32), 9)),
           ('acquire-truncated', K.enc_acquire(a, b, sel, 9)[:100]),
           ('acquire-no-attributes', K.enc_acquire(a, b, sel, 9)[:16 + 280]),
           ('acquire-family-0', K.enc_acquire(a, b, K.enc_selector(a, b, 0, 0, 6, 32, 32, family=0), 9)),
           ('expire-unknown-spi', K.enc_expire_spi(b'\xde\xad\xbe\xef', a, b, 50, False)),
           ('expire-unknown-spi-hard', K.enc_expire_spi(b'\xde\xad\xbe\xef', a, b, 50, True)),
           ('expire-truncated', K.enc_expire_spi(b'\xde\xad\xbe\xef', a, b, 50, True)[:40]),
           ('netlink-unknown-type', struct.pack('<IHHII', 16, 0x55, 0, 1, 0)),
           ('netlink-header-only-acquire', struct.pack('<IHHII', 16, K.XFRM_MSG_ACQUIRE, 0, 1, 0)),
           ('netlink-empty', b''), ('netlink-3-octets', b'\1\2\3'),
           ('netlink-error-frame', K.ack(b'\0' * 16, 12)),
           ('netlink-done', struct.pack('<IHHII', 16, 3, 0, 1, 0))]
    # genuine kernel events at a moment the daemon did not choose: the soft / hard expire of every SPI its CHILD_SAs hold
    # (the kernel reports both SAs of a pair, and it does so whatever exchange the IKE_SA is in the middle of)
    n = 0
    for sa in ep.controller.ike_sas:
        for ch in sa.child_sas:
            for which, spi in (('in', ch.inbound_spi), ('out', ch.outbound_spi)):
                for hard in (False, True):
                    out.append(('expire-held-spi-%d-%s-%s' % (n, which, 'hard' if hard else 'soft'),
                                K.enc_expire_spi(bytes(spi), a, b, 50, hard)))
            n += 1
    return out


# ------------------------------------------------------------------ one case

def blind(w, data):
    """the datagram names no SPI that was ever on the wire or is held by an IKE_SA (zero is no SPI)"""
    if len(data) < 16:
        return True
    known = set()
    for ep in w.endpoints.values():
        for sa in ep.controller.ike_sas:
            known.update((bytes(sa.my_spi), bytes(sa.peer_spi)))
    for d in w.sent_log:
        known.update((d.data[0:8], d.data[8:16]))
    known.discard(b'\0' * 8)
    return data[0:8] not in known and data[8:16] not in known


def continuous_at(pos):
    """the reference session up to position pos on a world whose event loops are never left (harness/continuous.py)"""
    w = S.new_world(S.base_confs(), cls=ContinuousWorld)
    w.sent_log = []
    n = 0
    if pos:
        for ev in session_events(w):
            w.step(ev)
            n += 1
            if n == pos:
                break
    return w


def inject_and_finish(w0, kind, target, label, payload, src=None, continuous=False):
    w = w0 if continuous else w0.fork()
    before_lines = None

    def go():
        if kind == 'dgram':
            w.step(('inject', target, payload, src))
            if w.endpoints[target].alive:
                w.step(('inject', target, payload, src))      # and its natural retransmission (any sender repeats what
                #                                                 was not answered)
        else:
            w.step(('kevent', target, payload))
    try:
        lines = count_lines(go)
    except Wedged:
        return [('wedged', 'more than %d lines executed in one main_loop iteration' % LINE_CAP)], None
    ep = w.endpoints[target]
    if not ep.alive:
        return [('loop-exit:%s' % ep.dead_reason[0],
                 '%s left main_loop: %s' % (ep.dead_reason[0], ep.dead_reason[1][:200]))], lines
    if kind == 'kevent' and not continuous:
        # ... and nothing else happens for a while: whatever the odd kernel event left behind, every timer of the daemon
        # (retransmission, liveness, rekey) gets its turn without taking the daemon down
        idle = w.fork()
        for k in range(130):
            idle.step(('tick', 1.0))
            for d in list(idle.net):
                idle.step(('deliver', d.id))
            e = idle.endpoints[target]
            if not e.alive:
                return [('loop-exit-later:%s' % e.dead_reason[0], '%s left main_loop %d s after the kernel event: %s' % (
                    e.dead_reason[0], k + 1, e.dead_reason[1][:200]))], lines
    finish_session(w)
    probs = healthy(w)
    if not probs:
        return [], lines
    if kind == 'dgram' and src != STRANGER and blind(w0, payload):
        # a sender that knows none of the SPIs in use (it has seen no traffic) cannot be told from the peer by its
        # address, but nothing it sends may touch an exchange in flight: those are all identified by their SPIs
        return [('blind-sender-disturbed-session', probs[0])], lines
    if src == STRANGER and kind == 'dgram' and not label.startswith('authentic'):
        # garbage from somebody else must not interfere with the session between A and B at all (a replayed copy
        # of an authentic datagram is executed whoever carries it: C08 judges that)
        return [('other-peer-disturbed', probs[0])], lines
    # Input that claims to come from the peer itself (spoofed before keys exist, or well protected but malformed)
    # may cost that IKE_SA.  The daemon must stay alive and keep serving: after the time-outs have run, a fresh
    # negotiation has to succeed.
    for e in w.endpoints.values():
        if not e.alive:
            return [('daemon-dead-after', probs[0])], lines
    for k in range(110):
        w.step(('tick', 1.0))
        for d in list(w.net):
            w.step(('deliver', d.id))
    for e in w.endpoints.values():
        if not e.alive:
            return [('daemon-dead-after', '%s died later: %s' % (e.name, e.dead_reason[:2]))], lines
    w.step(('acquire', 'A', 0, 0))
    guard = 0
    while w.net and guard < 60:
        guard += 1
        w.step(('deliver', w.net[0].id))
    pa, pb = P.established_pairs(w.endpoints['A']), P.established_pairs(w.endpoints['B'])
    if not (pa & pb):
        return [('no-service-afterwards', 'after the hostile input and all time-outs a fresh negotiation does not '
                 'establish (first problem was: %s)' % probs[0])], lines
    return [], lines


CONT = [None]


def work(case):
    CONT[0] = None
    r = _work(case)
    return r[0], r[1], (r[2], CONT[0])


def _work(case):
    pos, kind, target, idx = case
    w0 = POSITIONS[pos][1]
    if kind in ('dgram', 'kevent'):
        if kind == 'dgram':
            corpus = unauth_corpus(w0, target) + auth_corpus(w0, target)
            label, data, src = corpus[idx]
        else:
            label, data = kernel_corpus(w0, target)[idx]
            src = None
        res, lines = inject_and_finish(w0, kind, target, label, data, src)
        if not res:
            # the same with the event loops never left: whatever main_loop keeps in its own frame stays alive
            wc = continuous_at(pos)
            try:
                if world_digest(wc) != world_digest(w0):
                    CONT[0] = 'position-differs'
                else:
                    try:
                        res_c, _ = inject_and_finish(wc, kind, target, label, data, src, continuous=True)
                    except WorldWedged:
                        res_c = [('wedged', 'a pass of the event loop did not come back to select()')]
                    CONT[0] = 'run'
                    res = [(sig + ':loop-never-left', msg) for sig, msg in res_c]
            finally:
                wc.close()
    elif kind in ('sendfail', 'kfail'):
        # the idx-th send / netlink request of the *next legitimate step* fails
        label = '%s#%d' % (kind, idx[0]) + (':' + idx[1] if kind == 'sendfail' else '')
        w = w0.fork()
        evs = list(session_events(w.fork())) if False else None
        nxt = NEXT_EVENT[pos]
        if nxt is None:
            return label, [], None
        if kind == 'sendfail':
            w.step(('sendfail', target, idx[0], idx[1]))
        else:
            w.step(('kfail', target, idx[0], K.ENOMEM))
        w.step(nxt)
        res = []
        for n, e in w.endpoints.items():
            if not e.alive:
                res.append(('loop-exit:%s' % e.dead_reason[0], '%s left main_loop of %s: %s' % (
                    e.dead_reason[0], n, e.dead_reason[1][:200])))
        if not res:
            # keep ticking: the daemons must stay alive while they sort it out (retransmission / DPD)
            for k in range(30):
                w.step(('tick', 1.0))
                for d in list(w.net):
                    w.step(('deliver', d.id))
            for n, e in w.endpoints.items():
                if not e.alive:
                    res.append(('loop-exit-later:%s' % e.dead_reason[0], '%s left main_loop of %s later: %s' % (
                        e.dead_reason[0], n, e.dead_reason[1][:200])))
        lines = None
    return label, res, lines


# ------------------------------------------------------------------ several peers: some die, the others must be served

def multi_confs():
    ips = {'A': S.IP_A, 'B': S.IP_B, 'C': S.IP_C, 'D': '192.168.0.4'}
    confs = {'A': {}}
    for i, p in enumerate('BCD'):
        confs['A']['to_' + p] = S.conn(ips['A'], ips[p], "alice@openikev2", "%s@openikev2" % p.lower(), "testing", "secret" + p,
                                      [S.entry(10 + i)], dpd=3600)
        confs[p] = {'to_a': S.conn(ips[p], ips['A'], "%s@openikev2" % p.lower(), "alice@openikev2", "secret" + p, "testing",
                                   [S.entry(20 + i)], dpd=3600)}
    return confs, {k: [v] for k, v in ips.items()}


def multi_case(case):
    order, dead = case          # order: permutation of 'BCD' (order of the ACQUIREs at A); dead: the peers that never answer
    from harness.world import World
    confs, addrs = multi_confs()
    w = World(confs, addrs)
    w.sent_log = []
    for p in dead:
        w.step(('crash', p))
    conn_index = {p: i for i, p in enumerate('BCD')}
    for p in order:
        w.step(('acquire', 'A', conn_index[p], 0))
    probs = []
    for k in range(45):
        for d in list(w.net):
            if w.find(d.id):
                w.step(('deliver', d.id))
        guard = 0
        while w.net and guard < 40:
            guard += 1
            w.step(('deliver', w.net[0].id))
        w.step(('tick', 1.0))
        if not w.endpoints['A'].alive:
            break
    a = w.endpoints['A']
    if not a.alive:
        return [('loop-exit:%s' % a.dead_reason[0], 'A left main_loop while some peers were timing out: %s' % a.dead_reason[1][:200])]
    healthy = [p for p in 'BCD' if p not in dead]
    for p in healthy:
        e = w.endpoints[p]
        pa = {x for x in P.established_pairs(a) if x in P.established_pairs(e)}
        if not pa:
            probs.append(('healthy-peer-lost', 'after the dead peers %s timed out, A and the healthy peer %s no longer share an '
                          'established IKE_SA (A holds %s)' % (dead, p, [(s.state.name, str(s.peer_addr)) for s in a.controller.ike_sas])))
            continue
        # and it still works: a DPD exchange from the healthy peer is answered
        i = next(i for i, s in enumerate(e.controller.ike_sas) if s.state == State.ESTABLISHED)
        w.step(('due', p, i, 'dpd'))
        guard = 0
        while w.net and guard < 10:
            guard += 1
            w.step(('deliver', w.net[0].id))
        if e.controller.ike_sas[i].state != State.ESTABLISHED:
            probs.append(('healthy-peer-not-served', 'DPD from the healthy peer %s is not answered any more' % p))
    for s in a.controller.ike_sas:
        if str(s.peer_addr) in [str(w.endpoints[p].addrs[0]) for p in dead]:
            probs.append(('dead-peer-ike-sa-kept', 'IKE_SA to the dead peer still held 45 s later (%s)' % s.state.name))
    o, m = P.sad_diff(a)
    if o or m:
        probs.append(('sad-mismatch', 'A: SAD differs from tracked CHILD_SAs after the time-outs'))
    want = 2 * len(healthy)
    if len(a.kernel.sad) != want:
        probs.append(('sad-size', 'A holds %d kernel SAs, expected %d (one CHILD_SA per healthy peer)' % (len(a.kernel.sad), want)))
    return probs


def multi_cases():
    import itertools
    for order in itertools.permutations('BCD'):
        for dead in (('B', 'C'), ('B', 'D'), ('C', 'D'), ('B',), ('B', 'C', 'D')):
            yield (''.join(order), dead)


POSITIONS = None
NEXT_EVENT = None


def prepare():
    global POSITIONS, NEXT_EVENT
    POSITIONS = session_positions()
    w = S.new_world(S.base_confs())
    w.sent_log = []
    evs = []
    for ev in session_events(w):
        evs.append(ev)
        w.step(ev)
    NEXT_EVENT = evs + [None]


def cases():
    out = []
    step = 1 if not ck.quick else 2
    for pos in range(0, len(POSITIONS), 1):
        w0 = POSITIONS[pos][1]
        for target in ('A', 'B'):
            if ck.quick and (pos + (target == 'B')) % 2:
                # quick: alternate targets over positions (every position is still attacked at one endpoint)
                continue
            n = len(unauth_corpus(w0, target)) + len(auth_corpus(w0, target))
            out += [(pos, 'dgram', target, i) for i in range(n)]
            out += [(pos, 'kevent', target, i) for i in range(len(kernel_corpus(w0, target)))]
    # send / netlink failures at every call index of every legitimate step
    for pos in range(len(POSITIONS) - 1):
        w = POSITIONS[pos][1].fork()
        counts = {n: (e.send_count, len(e.kernel.log)) for n, e in w.endpoints.items()}
        w.step(NEXT_EVENT[pos])
        for n, e in w.endpoints.items():
            for k in range(e.send_count - counts[n][0]):
                for exc in ('gaierror', 'ENETUNREACH', 'EPERM'):
                    out.append((pos, 'sendfail', n, (k, exc)))
            for k in range(len(e.kernel.log) - counts[n][1]):
                out.append((pos, 'kfail', n, (k,)))
    return out


def replay(path):
    doc = jdec(json.load(open(path)))
    if 'multi' in doc:
        res = multi_case((doc['multi'][0], tuple(doc['multi'][1])))
        for r in res:
            print('reproduced:', r)
        print('REPLAY %s' % ('reproduces a violation' if res else 'does not reproduce'))
        sys.exit(1 if res else 0)
    if 'outage' in doc:
        res = run_outage(tuple(doc['outage']))
        for r in res:
            print('reproduced:', r)
        print('REPLAY %s' % ('reproduces a violation' if res else 'does not reproduce'))
        sys.exit(1 if res else 0)
    if 'legit' in doc:
        res = run_legit([tuple(x) if isinstance(x, (list, tuple)) else x for x in doc['legit']])
        for r in res:
            print('reproduced:', r)
        print('REPLAY %s' % ('reproduces a violation' if res else 'does not reproduce'))
        sys.exit(1 if res else 0)
    prepare()
    case = doc['case']
    case = (case[0], case[1], case[2], tuple(case[3]) if isinstance(case[3], (list, tuple)) else case[3])
    label, res, lines = work(case)
    print('case', label, 'lines', lines)
    for r in res:
        print('reproduced:', r)
    print('REPLAY %s' % ('reproduces a violation' if res else 'does not reproduce'))
    sys.exit(1 if res else 0)


def main():
    if ck.args.replay:
        replay(ck.args.replay)
    prepare()
    cs = cases()
    outcomes = collections.Counter()
    labels = set()
    maxlines = 0
    cont = collections.Counter()
    for case, (label, res, (lines, c_mode)) in zip(cs, ck.pmap(work, cs)):
        cont[c_mode] += 1
        labels.add(label)
        if lines:
            maxlines = max(maxlines, lines)
        outcomes[(case[1], 'ok' if not res else res[0][0])] += 1
        for sig, msg in res:
            ck.violation('%s:%s:%s' % (sig, case[1], label), '%s [hostile item %s at %s before step %d of the session]' % (
                msg, label, case[2], case[0]), dict(case=case))
    lo = list(legit_orders())
    for sess, probs in zip(lo, ck.pmap(run_legit, lo)):
        lab = '>'.join('%s%s' % (x[0], x[1]) for x in sess if x != 'drain')
        labels.add('legit:' + lab)
        outcomes[('legit-order', 'ok' if not probs else probs[0][0])] += 1
        for sig, msg in probs:
            ck.violation('%s:legit-order:%s' % (sig, '>'.join(x[0] for x in sess if x != 'drain')), '%s [legitimate session %s]' % (msg, lab),
                         dict(legit=sess))
    oc = outage_cases()
    for case, probs in zip(oc, ck.pmap(run_outage, oc)):
        labels.add('outage:%s:%s' % case)
        outcomes[('outage', 'ok' if not probs else probs[0][0])] += 1
        for sig, msg in probs:
            ck.violation('%s:outage:%s' % (sig, case[0]), msg, dict(outage=list(case)))
    mc = list(multi_cases())
    for case, probs in zip(mc, ck.pmap(multi_case, mc)):
        labels.add('multi-peer:dead=%s' % ''.join(case[1]))
        outcomes[('multi-peer', 'ok' if not probs else probs[0][0])] += 1
        for sig, msg in probs:
            ck.violation('multi-peer:%s:dead=%d' % (sig, len(case[1])), '%s [ACQUIRE order %s, dead peers %s]' % (msg, case[0], case[1]),
                         dict(multi=case))
    ck.coverage.update(evaluations=len(cs) + len(mc) + len(lo) + len(oc), outages=len(oc), legit_orders=len(lo), distinct_nontrivial=len(labels),
                       rule='one evaluation = (position in the legitimate session, endpoint, hostile item or failing call '
                            'index): the item is injected through main_loop on a copy of the world, lines executed are '
                            'counted, then the session is completed and compared; distinct_nontrivial = distinct hostile '
                            'item labels', samples=sorted(labels)[:40], exhaustive=True,
                       session_positions=len(POSITIONS), max_lines_in_one_iteration=maxlines, line_cap=LINE_CAP,
                       cases_repeated_with_the_event_loop_never_left=cont.get('run', 0),
                       continuous_positions_that_differ_from_the_stepping_model=cont.get('position-differs', 0),
                       outcome_counts={'%s:%s' % k: v for k, v in sorted(outcomes.items())})
    ck.assumptions += ['bounded time = executed line events of one main_loop iteration <= %d' % LINE_CAP,
                       'well-protected malformed input from the authenticated peer may end that IKE_SA; the daemon must '
                       'stay alive']
    ck.finish()


if __name__ == '__main__':
    main()
