"""C13 - retransmission, dead-peer detection and lifetimes are bounded and faithful.
(DESIGN.md section 3, C13).  Deterministic runs, enumerated exhaustively: request kind x subset of lost
request transmissions x subset of lost replies x tick sequence; DPD / lifetime runs with traffic at every
tick offset and both jitter extremes; a peer crash after every step of a reference session."""
import collections
import itertools
import json
import sys

from harness import seams  # noqa
from harness.seams import CTX
from harness.runner import Check, jdec
from harness import collide as C
from harness import protocol as P
from harness import scenarios as S
from harness.world import State, REQ_SENT_STATES, HarnessError

from ikesa import IkeSa

ck = Check('C13', 'fault_enumeration')
MAXR = IkeSa.MAX_RETRANSMISSIONS
DPD = 10
LIFETIME = 40


def confs_for(config):
    c = C.CONFIGS[config]()
    for ep in c.values():
        for conn in ep.values():
            conn['dpd'] = 3600        # retransmission runs: keep DPD out of the way
    return c


# ------------------------------------------------------------------ part A: retransmission

KINDS = ['init', 'init-cookie', 'init-invalid-ke', 'auth', 'new-child', 'rekey-child', 'rekey-ike', 'delete-child',
         'delete-ike', 'dpd', 'new-child-invalid-ke', 'rekey-child-invalid-ke', 'rekey-ike-invalid-ke',
         'delete-after-rekey', 'rekey-child+sibling', 'rekey-ike+sibling']


def _trig(w, kind, who='A'):
    if kind in ('new-child', 'init', 'auth'):
        return ('acquire', who, 0, 0)
    if kind in ('rekey-child', 'delete-child'):
        c = w.endpoints[who].controller.ike_sas[0].child_sas[0]
        return ('expire', who, bytes(c.inbound_spi), kind == 'delete-child')
    return ('due', who, 0, {'rekey-ike': 'rekey_ike', 'delete-ike': 'delete_ike', 'dpd': 'dpd'}[kind])


class NotSent(Exception):
    pass


STALE_KINDS = [k for k in KINDS if k.endswith('invalid-ke') or k in ('init-cookie', 'auth', 'delete-after-rekey')]


def build_request(kind):
    """world in which the tracked request has just been emitted for the first time; returns (w, tracked)"""
    base = kind.replace('-invalid-ke', '').replace('-cookie', '')
    config = 'ke-mismatch' if kind.endswith('invalid-ke') else 'match'
    confs = confs_for(config)
    if kind.endswith('+sibling'):
        # both peers initiated at the same moment: each holds two IKE_SAs of the one connection, each with a CHILD_SA of the
        # same protect entry.  The request is sent on the first; while it is outstanding the second IKE_SA runs the same kind
        # of exchange to the end (its kernel event / lifetime falls into the same second).
        base = kind[:-8]
        w = S.new_world(confs)
        w.step(('acquire', 'A', 0, 0))
        w.step(('acquire', 'B', 0, 0))
        w.deliver_all()
        a = w.endpoints['A']
        if [x.state for x in a.controller.ike_sas] != [State.ESTABLISHED] * 2 or any(len(x.child_sas) != 1 for x in a.controller.ike_sas):
            raise HarnessError('simultaneous initiation did not leave two IKE_SAs with a CHILD_SA each')
        w.sent_log, w.recv_log = [], []
        w.step(_trig(w, base))
        if len(w.net) != 1:
            raise NotSent(kind)
        d = w.net[0]
        if base == 'rekey-child':
            w.step(('expire', 'A', bytes(a.controller.ike_sas[1].child_sas[0].inbound_spi), False))
        else:
            w.step(('due', 'A', 1, 'rekey_ike'))
        guard = 0
        while len(w.net) > 1 and guard < 40:
            guard += 1
            w.step(('deliver', next(x for x in w.net if x is not d).id))
        tracked = dict(data=d.data, exch=d.data[18], mid=int.from_bytes(d.data[20:24], 'big'), spi_i=d.data[0:8], t0=w.clock)
        return w, tracked
    if base in ('init', 'auth'):
        w = S.new_world(confs)
        if kind == 'init-cookie':
            w.endpoints['B'].controller.cookie_threshold = -1      # every IKE_SA_INIT request needs a cookie
        w.sent_log, w.recv_log = [], []
        w.step(_trig(w, base))
        if kind in ('init-cookie', 'init-invalid-ke'):
            w.step(('deliver', w.net[0].id))     # request -> COOKIE / INVALID_KE_PAYLOAD reply
            w.step(('deliver', w.net[0].id))     # reply -> retried request (tracked)
        if base == 'auth':
            w.step(('deliver', w.net[0].id))
            w.step(('deliver', w.net[0].id))
    else:
        w = S.established(confs)
        w.sent_log, w.recv_log = [], []
        if kind == 'delete-after-rekey':
            w.step(_trig(w, 'rekey-ike'))
            w.step(('deliver', w.net[0].id))
            w.step(('deliver', w.net[0].id))     # rekey response -> INFORMATIONAL delete of the old IKE_SA
        else:
            w.step(_trig(w, base))
            if kind.endswith('invalid-ke'):
                w.step(('deliver', w.net[0].id))
                w.step(('deliver', w.net[0].id))
    if not w.net and all(e.alive for e in w.endpoints.values()):
        # the local trigger (kernel event or a timer that has come due) did not make the daemon send its request at all
        raise NotSent(kind)
    if len(w.net) != 1 or w.net[0].sender != 'A':
        raise HarnessError('%s: expected exactly the tracked request in flight, have %r' % (kind, w.net))
    d = w.net[0]
    tracked = dict(data=d.data, exch=d.data[18], mid=int.from_bytes(d.data[20:24], 'big'), spi_i=d.data[0:8], t0=w.clock)
    return w, tracked


def is_tracked_request(d, tr):
    return (d.sender == 'A' and not d.data[19] & 0x20 and d.data[18] == tr['exch'] and d.data[0:8] == tr['spi_i']
            and int.from_bytes(d.data[20:24], 'big') == tr['mid'])


def is_tracked_reply(d, tr):
    return (d.sender == 'B' and d.data[19] & 0x20 and d.data[18] == tr['exch'] and d.data[0:8] == tr['spi_i']
            and int.from_bytes(d.data[20:24], 'big') == tr['mid'])


def run_coincide(kind, k):
    """the answer to the k-th transmission is held back and becomes readable in the very pass in which the timer of that
    transmission runs out (time passes, then one pass with the datagram readable): the pass serves the socket, so the request
    counts as answered and is neither sent again nor given up.  Returns observations like run_retrans."""
    w, tr = build_request(kind)
    tx, accepted_at = [], None
    held = None
    sa_spi = tr['spi_i']
    n = 0
    for _ in range(80):
        for d in list(w.net):
            if is_tracked_request(d, tr):
                tx.append((w.clock, d.data))
                if n < k:
                    w.step(('drop', d.id))          # earlier transmissions are lost
                else:
                    w.step(('deliver', d.id))
                n += 1
            elif is_tracked_reply(d, tr) and held is None and accepted_at is None:
                held = d
            elif d is not held:
                w.step(('deliver', d.id))
        if any(d is not held for d in w.net):
            continue                                 # what those deliveries produced is looked at before any time passes
        a_sa = next((x for x in w.endpoints['A'].controller.ike_sas if bytes(x.spi_i) == sa_spi or bytes(x.my_spi) == sa_spi), None)
        if held is not None and accepted_at is None:
            if a_sa is None:
                break
            w.step(('advance', max(0.0, a_sa.retransmit_at - w.clock) + 0.01))
            w.step(('deliver', held.id))
            accepted_at = w.clock - 0.001            # anything A sends from this pass on comes after the answer was readable
            held = 'done'
            continue
        if accepted_at is not None and not w.net:
            w.step(('tick', 1.0))
            if w.clock > tr['t0'] + 60:
                break
            continue
        dl = P.next_retransmit_deadline(w)
        w.step(('tick', (max(0.0, dl - w.clock) + 0.01) if dl is not None else 1.0))
    a = w.endpoints['A']
    heldsas = [x for x in a.controller.ike_sas if bytes(x.spi_i) == sa_spi or bytes(x.my_spi) == sa_spi]
    return dict(tx=tx, accepted_at=accepted_at, t0=tr['t0'], alive=a.alive and w.endpoints['B'].alive,
                dead=[e.dead_reason for e in w.endpoints.values() if not e.alive],
                still_held=[x.state.name for x in heldsas], waiting=[x.state.name for x in a.controller.ike_sas if x.state in REQ_SENT_STATES],
                sad=sorted(a.kernel.sad), orphan=P.sad_diff(a) if a.alive else None, first=tr['data'], w=w)


def run_retrans(kind, lost_req, lost_rep, ticks, horizon=45.0, oneway=False, outage=None, stale=False):
    """returns observations of one deterministic run.  oneway: everything A sends is lost while B keeps talking
    (its own DPD probes and their retransmissions reach A).  outage=(indices, exc): those of A's next sends (0 = the first
    retransmission) fail locally with that error."""
    w, tr = build_request(kind)
    if outage:
        for i in outage[0]:
            w.step(('sendfail', 'A', i, outage[1]))
    if stale:
        # the network delivers second copies of everything B answered so far (the COOKIE / INVALID_KE_PAYLOAD reply, the
        # IKE_SA_INIT response, the rekey response): they are stale, the outstanding request stays outstanding
        for i, old in enumerate(list(w.sent_log)):
            if old.sender == 'B' and old.data[19] & 0x20:
                w.step(('redeliver', i))
                w.step(('deliver', w.net[-1].id))
    if oneway:
        for i, sb in enumerate(w.endpoints['B'].controller.ike_sas):
            if sb.state == State.ESTABLISHED:
                sb.start_dpd_at = w.clock + 1.5      # B's own liveness check falls into A's retransmission period
    sa_spi = tr['spi_i']
    tx, accepted_at = [], None
    nreq = nrep = 0
    t_end = w.clock + horizon
    tick_iter = itertools.cycle(ticks)
    seen = set()
    while w.clock < t_end:
        # handle everything in flight (new emissions may appear while we do so)
        guard = 0
        while w.net:
            guard += 1
            if guard > 200:
                raise HarnessError('network does not drain')
            d = w.net[0]
            if oneway and d.sender == 'A' and not is_tracked_request(d, tr):
                w.step(('drop', d.id))
                continue
            if is_tracked_request(d, tr):
                if d.id not in seen:
                    seen.add(d.id)
                    tx.append((w.clock, d.data))
                i, nreq = nreq, nreq + 1
                w.step(('drop', d.id) if i in lost_req else ('deliver', d.id))
            elif is_tracked_reply(d, tr):
                i, nrep = nrep, nrep + 1
                if i in lost_rep:
                    w.step(('drop', d.id))
                else:
                    w.step(('deliver', d.id))
                    if accepted_at is None:
                        accepted_at = w.clock
            else:
                w.step(('deliver', d.id))
        w.step(('tick', next(tick_iter)))
    a = w.endpoints['A']
    held = [s for s in a.controller.ike_sas if bytes(s.spi_i) == sa_spi or bytes(s.my_spi) == sa_spi]
    return dict(tx=tx, accepted_at=accepted_at, t0=tr['t0'], alive=a.alive and w.endpoints['B'].alive,
                dead=[e.dead_reason for e in w.endpoints.values() if not e.alive],
                still_held=[(s.state.name) for s in held], waiting=[s.state.name for s in a.controller.ike_sas
                                                                    if s.state in REQ_SENT_STATES],
                sad=sorted(a.kernel.sad), orphan=P.sad_diff(a) if a.alive else None, first=tr['data'], w=w)


def judge_retrans(kind, obs, fine):
    out = []
    tx = obs['tx']
    if not obs['alive']:
        out.append(('daemon-died', 'an endpoint died: %r' % (obs['dead'],)))
        return out
    if any(data != obs['first'] for t, data in tx):
        out.append(('not-identical', 'a retransmission differs from the first transmission of the request'))
    if len(tx) - 1 > MAXR:
        out.append(('too-many', '%d retransmissions, built-in maximum %d' % (len(tx) - 1, MAXR)))
    times = [t for t, d in tx]
    gaps = [round(b - a, 3) for a, b in zip(times, times[1:])]
    if fine:
        if any(g <= 0 for g in gaps) or any(b < a - 1.001 for a, b in zip(gaps, gaps[1:])):
            out.append(('intervals-decrease', 'retransmission intervals %s are not non-decreasing' % gaps))
    if obs['accepted_at'] is not None:
        late = [t for t in times if t > obs['accepted_at']]
        if late:
            out.append(('retransmit-after-answer', 'request sent again at %s after its reply was accepted at %s'
                        % ([round(t - obs['t0'], 2) for t in late], round(obs['accepted_at'] - obs['t0'], 2))))
    else:
        # never answered: the IKE_SA must be given up, with all its kernel SAs
        if obs['still_held'] or obs['waiting']:
            out.append(('never-gives-up', 'unanswered request: IKE_SA still held (%s) %.0f s after the first '
                        'transmission' % (obs['still_held'], 45)))
        # (its kernel SAs must be gone too: judged by the SAD / tracked CHILD_SA comparison below, because after an
        # IKE_SA rekey the CHILD_SAs legitimately live on under the successor)
        if fine and len(tx) < 2:
            out.append(('no-retransmission', 'unanswered request was never retransmitted'))
    if obs['orphan'] and (obs['orphan'][0] or obs['orphan'][1]):
        out.append(('sad-mismatch', 'model SAD and tracked CHILD_SAs differ at the end: %r' % (obs['orphan'],)))
    return out


def subsets(n):
    for r in range(n + 1):
        for c in itertools.combinations(range(n), r):
            yield frozenset(c)


def retrans_cases():
    fine = [1.0]
    coarse = [[3.0], [7.0], [25.0]] if not ck.quick else [[7.0]]
    n = MAXR + 1 if not ck.quick else MAXR
    for kind in KINDS:
        for lr in subsets(n):
            for lp in subsets(n):
                # a reply to a request that never arrived does not exist: skip equivalent patterns
                if any(i in lp for i in lr) and not ck.quick:
                    pass
                yield (kind, tuple(sorted(lr)), tuple(sorted(lp)), tuple(fine), True)
        for k in range(0, MAXR):
            yield (kind, 'coincide', k)
        if kind in STALE_KINDS:
            for lr in subsets(2):
                for lp in subsets(2):
                    yield (kind, 'stale', lr, lp)
        # A's own sends fail (interface down, route gone): every subset of the retransmissions, and an outage that lasts
        for sub in subsets(MAXR - 1):
            yield (kind, 'outage', tuple(sorted(sub)), 'ENETUNREACH')
        yield (kind, 'outage', tuple(range(64)), 'ENETUNREACH')
        yield (kind, 'outage', tuple(range(64)), 'EPERM')
        if kind not in ('init', 'init-cookie', 'init-invalid-ke', 'auth'):
            # one-way loss: none of A's datagrams arrives, B's own probes keep arriving at A
            yield (kind, tuple(range(n + 2)), (), tuple(fine), True, True)
        for ticks in coarse:
            for lr in (frozenset(), frozenset(range(n)), frozenset({0}), frozenset({0, 1})):
                for lp in (frozenset(), frozenset(range(n)), frozenset({0})):
                    yield (kind, tuple(sorted(lr)), tuple(sorted(lp)), tuple(ticks), False)


def work_retrans(case):
    if case[1] == 'stale':
        kind, _, lr, lp = case
        try:
            obs = run_retrans(kind, lr, lp, [1.0], stale=True)
        except NotSent:
            return [('request-never-sent', 'the %s request is not sent at all' % kind)], (0, False, False)
        res = judge_retrans(kind, obs, True)
        if kind == 'init-cookie':
            # a second copy of the COOKIE reply is a challenge like the first: answering it once more with the very same
            # request is not a timer retransmission, so the clauses on intervals and count do not apply to it
            res = [r for r in res if r[0] not in ('intervals-decrease', 'too-many')]
        return [(sig + ':stale-copies', msg) for sig, msg in res], (len(obs['tx']), obs['accepted_at'] is not None, bool(obs['still_held']))
    if case[1] == 'outage':
        kind, _, idxs, exc = case
        try:
            obs = run_retrans(kind, frozenset(range(64)), frozenset(), [1.0], outage=(idxs, exc))
        except NotSent:
            return [('request-never-sent', 'the %s request is not sent at all' % kind)], (0, False, False)
        res = [r for r in judge_retrans(kind, obs, False) if r[0] in ('daemon-died', 'never-gives-up', 'too-many', 'sad-mismatch')]
        return [(sig + ':local-send-failure', msg) for sig, msg in res], (len(obs['tx']), False, bool(obs['still_held']))
    if case[1] == 'coincide':
        kind, _, k = case[:3]
        try:
            obs = run_coincide(kind, k)
        except NotSent:
            return [('request-never-sent', 'the %s request is not sent at all' % kind)], (0, False, False)
        res = [r for r in judge_retrans(kind, obs, False) if r[0] in ('daemon-died', 'retransmit-after-answer', 'sad-mismatch', 'not-identical')]
        if obs['accepted_at'] is None:
            # transmission k+1 of the request never appeared on the wire (or nobody answered it): the plain loss cases say why
            return [('transmission-missing:answer-in-the-timeout-pass', 'transmission %d of the %s request was never seen (%d '
                     'transmissions in all), so its answer could not arrive' % (k + 1, kind, len(obs['tx'])))], (len(obs['tx']), False, False)
        if kind not in ('delete-ike', 'delete-after-rekey') and not obs['still_held'] and not kind.startswith('rekey-ike'):
            res.append(('given-up-although-answered', 'the answer became readable in the pass in which the timer ran out, and the '
                        'IKE_SA was given up all the same'))
        return [(sig + ':answer-in-the-timeout-pass', msg) for sig, msg in res], (len(obs['tx']), True, bool(obs['still_held']))
    kind, lr, lp, ticks, fine = case[:5]
    oneway = len(case) > 5 and case[5]
    try:
        # the give-up takes one pass of the loop per retransmission: with passes far apart the horizon grows with them
        obs = run_retrans(kind, set(lr), set(lp), list(ticks), oneway=oneway, horizon=max(45.0, (MAXR + 2) * max(ticks) + 5))
    except NotSent:
        return [('request-never-sent', 'the %s request is not sent at all when its trigger fires (timer due / kernel event)' % kind)], (0, False, False)
    res = judge_retrans(kind, obs, fine)
    outcome = (len(obs['tx']), obs['accepted_at'] is not None, bool(obs['still_held']))
    return [(sig, msg) for sig, msg in res], outcome


# ------------------------------------------------------------------ part B: DPD and lifetimes

def idle_world(a_lifetime=100000, b_lifetime=100000, a_dpd=DPD, b_dpd=3600, a_hi=False):
    c = S.base_confs(a_over={'dpd': a_dpd, 'lifetime': a_lifetime}, b_over={'dpd': b_dpd, 'lifetime': b_lifetime})
    CTX.uniform_hi = a_hi
    try:
        w = S.new_world(c)
        w.sent_log, w.recv_log = [], []
        w.step(('acquire', 'A', 0, 0))
        w.deliver_all()
        w.history = []
    finally:
        CTX.uniform_hi = False
    return w


def run_dpd_childless():
    """an established IKE_SA whose only CHILD_SA was deleted is still probed after the DPD interval (and given up when the
    peer is gone)"""
    w = idle_world()
    a = w.endpoints['A']
    c = a.controller.ike_sas[0].child_sas[0]
    w.step(('expire', 'A', bytes(c.inbound_spi), True))
    w.deliver_all()
    if a.controller.ike_sas[0].child_sas or a.controller.ike_sas[0].state != State.ESTABLISHED:
        raise HarnessError('could not produce an established IKE_SA without CHILD_SA')
    w.step(('crash', 'B'))
    t0 = w.clock
    probe_at = gone_at = None
    for k in range(1, DPD + 30):
        w.step(('tick', 1.0))
        for d in list(w.net):
            if probe_at is None and d.sender == 'A' and d.data[18] == 37 and not d.data[19] & 0x20:
                probe_at = w.clock - t0
            w.step(('drop', d.id))
        if gone_at is None and not a.controller.ike_sas:
            gone_at = w.clock - t0
    out = []
    if probe_at is None or probe_at > DPD + 1.001:
        out.append(('childless:no-probe', 'an established IKE_SA without CHILD_SA did not probe its (dead) peer within dpd+1 s '
                    '(probe at %s)' % probe_at))
    if gone_at is None or gone_at > DPD + 22.001:
        out.append(('childless:dead-peer-not-detected', 'IKE_SA without CHILD_SA gone at %s, allowed %d' % (gone_at, DPD + 22)))
    return out


def run_dpd(offset, peer):
    """A idle with dpd=DPD.  peer='answering': B answers A's probes and, at tick `offset`, sends authentic traffic
    of its own (a DPD probe), which must push A's next probe back.  peer='silent': everything A sends is lost.
    Judged per tick against the time of the last authentic input actually delivered to A."""
    w = idle_world()
    t0 = w.clock
    last_input = t0          # the IKE_AUTH response was the last authentic input at A
    problems = []
    probes = []
    gone_at = None
    first_spi = bytes(w.endpoints['A'].controller.ike_sas[0].my_spi)
    for k in range(1, 3 * DPD + 30):
        sa = next((s for s in w.endpoints['A'].controller.ike_sas if bytes(s.my_spi) == first_spi), None)
        could_probe = sa is not None and sa.state == State.ESTABLISHED
        if peer.startswith('silent-busy-sockets'):
            # select() never times out: some socket is readable at least once a second (a 1-octet datagram from a host
            # nobody knows; a well-formed IKE_SA_INIT request from a host without connection; a kernel ACQUIRE for a policy that
            # is not the daemon's; a status query).  The timers are served all the same.
            w.step(('advance', 1.0))
            what = peer.partition(':')[2]
            if what == 'init-from-stranger':
                from harness import forge as F
                w.step(('inject', 'A', F.clear(bytes([k & 0xFF]) * 8, b'\0' * 8, 34, 0x08, 0, []), '192.168.0.99'))
            elif what == 'foreign-acquire':
                import ipaddress
                from harness import kernel as K
                x, y = ipaddress.ip_address('192.168.0.98'), ipaddress.ip_address('192.168.0.99')
                w.step(('kevent', 'A', K.enc_acquire(x, y, K.enc_selector(x, y, 0, 0, 6, 32, 32), 0x7ffff9)))
            elif what == 'status-queries':
                w.step(('status', 'A'))
            else:
                w.step(('inject', 'A', b'\x00', '192.168.0.99'))
        else:
            w.step(('tick', 1.0))
        idle = w.clock - last_input
        new_probe = [d for d in w.step_emitted if d.sender == 'A' and d.data[18] == 37 and not d.data[19] & 0x20
                     and all(d.data != p[1] for p in probes)]
        if new_probe:
            probes.append((w.clock - t0, new_probe[0].data))
            if idle < DPD - 0.001:
                problems.append(('probe-too-early', 'DPD probe %.0f s after the last authentic input (dpd=%d)' % (idle, DPD)))
        elif could_probe and idle > DPD + 1.001:
            problems.append(('probe-too-late', 'no DPD probe although nothing authentic arrived for %.0f s (dpd=%d)'
                             % (idle, DPD)))
        if peer == 'answering' and k == offset:
            w.step(('due', 'B', 0, 'dpd'))
        if peer == 'silent-with-noise' and k % 3 == 0:
            # unauthenticated datagrams carrying the IKE_SA's SPIs (a replayed IKE_SA_INIT response, a forged header, a
            # datagram whose checksum fails): they are not authentic input and must not postpone dead-peer detection
            sa0 = next((s for s in w.endpoints['A'].controller.ike_sas), None)
            if sa0 is not None:
                from harness import forge as F
                noise = [d.data for d in w.sent_log if d.data[18] == 34 and d.data[19] & 0x20][-1:]
                noise.append(F.clear(bytes(sa0.spi_i), bytes(sa0.spi_r), 37, 0x20, sa0.my_msg_id))
                noise.append(F.clear(bytes(sa0.spi_i), bytes(sa0.spi_r), 37, 0x00, sa0.peer_msg_id, [(F.SK, b'\x33' * 64)]))
                w.step(('inject', 'A', noise[(k // 3) % len(noise)], S.IP_B))
        guard = 0
        while w.net:
            guard += 1
            d = w.net[0]
            if d.sender == 'A' and peer.startswith('silent'):
                w.step(('drop', d.id))
                continue
            dst_a = d.dst == S.IP_A
            w.step(('deliver', d.id))
            if dst_a:
                last_input = w.clock
            if guard > 100:
                raise HarnessError('loop')
        if gone_at is None and not w.endpoints['A'].controller.ike_sas:
            gone_at = w.clock - t0
    return dict(probes=probes, gone_at=gone_at, offset=offset, problems=problems,
                sad_a=sorted(w.endpoints['A'].kernel.sad), alive=all(e.alive for e in w.endpoints.values()))


def judge_dpd(obs, peer):
    if not obs['alive']:
        return [('daemon-died', 'an endpoint died')]
    out = list(obs['problems'][:1])
    if not obs['probes']:
        out.append(('no-probe', 'idle IKE_SA never probed its peer (dpd=%d)' % DPD))
    if peer.startswith('silent'):
        budget = DPD + 20 + 2
        if obs['gone_at'] is None or obs['gone_at'] > budget + 0.001:
            out.append(('dead-peer-not-detected', 'silent peer: IKE_SA gone at %s, allowed %.0f' % (obs['gone_at'], budget)))
        if obs['sad_a']:
            out.append(('sas-survive-dead-peer', 'kernel SAs remain after dead-peer detection: %s' % (obs['sad_a'],)))
    elif obs['gone_at'] is not None:
        out.append(('live-peer-dropped', 'IKE_SA with an answering peer was given up at %s' % obs['gone_at']))
    return out


def slow_idle_world(a_lifetime, a_hi):
    """like idle_world, but the initial exchanges take long: the first three transmissions of the IKE_SA_INIT request and of
    the IKE_AUTH request are lost (2 + 4 + 6 s each); returns (world, time the IKE_SA was created)"""
    c = S.base_confs(a_over={'dpd': 3600, 'lifetime': a_lifetime}, b_over={'dpd': 3600, 'lifetime': 100000})
    CTX.uniform_hi = a_hi
    try:
        w = S.new_world(c)
        w.endpoints['B'].controller.cookie_threshold = -1          # one more round: the request has to come back with a cookie
        w.sent_log, w.recv_log = [], []
        w.step(('acquire', 'A', 0, 0))
        t_created = w.clock
        for exch in (34, 34, 35):
            for _ in range(3):
                for d in list(w.net):
                    w.step(('drop', d.id))
                sa = w.endpoints['A'].controller.ike_sas[0]
                w.step(('tick', max(0.0, sa.retransmit_at - w.clock) + 0.01))
            w.step(('deliver', w.net[0].id))
            w.step(('deliver', w.net[0].id))
        w.deliver_all()
        w.history = []
    finally:
        CTX.uniform_hi = False
    sas = w.endpoints['A'].controller.ike_sas
    if len(sas) != 1 or sas[0].state != State.ESTABLISHED:
        raise HarnessError('slow handshake did not establish: %s' % [x.state.name for x in sas])
    return w, t_created


def run_lifetime(a_hi, peer):
    """A's IKE_SA lifetime = LIFETIME (+ jitter seam at an extreme); peer answers / is silent / always collides"""
    if peer == 'answering-after-slow-handshake':
        w, t_created = slow_idle_world(LIFETIME, a_hi)
        peer = 'answering'
    else:
        w, t_created = idle_world(a_lifetime=LIFETIME, a_dpd=3600, a_hi=a_hi, b_lifetime=LIFETIME if peer.startswith('collides') else 100000), None
    if peer == 'collides-once':
        # the two ends draw different random delays before they try again after TEMPORARY_FAILURE (what the jitter is for)
        w.endpoints['A'].uniform_hi, w.endpoints['B'].uniform_hi = False, True
    t0 = w.clock if t_created is None else t_created
    first_spi = bytes(w.endpoints['A'].controller.ike_sas[0].my_spi)
    rekey_at = delete_at = gone_at = None
    for k in range(1, LIFETIME + 75):
        w.step(('tick', 1.0))
        guard = 0
        while w.net:
            guard += 1
            d = w.net[0]
            if d.sender == 'A' and d.desc[0] not in ('raw', 'enc') and not d.desc[3]:
                if d.desc[2] == 36 and any(p[0] == 'SA' and p[1] and p[1][0][0] == 1 for p in d.desc[7]) \
                        and d.desc[0] == first_spi:
                    rekey_at = rekey_at if rekey_at is not None else w.clock - t0
                if d.desc[2] == 37 and any(p[0] == 'D' and p[1] == 1 for p in d.desc[7]) and d.desc[0] == first_spi \
                        and delete_at is None:
                    delete_at = w.clock - t0
            if peer == 'silent' and d.sender == 'A':
                w.step(('drop', d.id))
            else:
                w.step(('deliver', d.id))
            if guard > 200:
                raise HarnessError('loop')
        if gone_at is None and not any(bytes(s.my_spi) == first_spi for s in w.endpoints['A'].controller.ike_sas):
            gone_at = w.clock - t0
    return dict(rekey_at=rekey_at, delete_at=delete_at, gone_at=gone_at, alive=all(e.alive for e in w.endpoints.values()),
                slack=0 if t_created is None else 40,
                a_sas=[(s.state.name, len(s.child_sas)) for s in w.endpoints['A'].controller.ike_sas],
                sad_diff=P.sad_diff(w.endpoints['A']), w=w)


def judge_lifetime(obs, a_hi, peer):
    out = []
    if not obs['alive']:
        return [('daemon-died', 'an endpoint died')]
    # (after a slow handshake the lifetime may be counted from the creation of the IKE_SA or from its establishment)
    lo, hi = LIFETIME, LIFETIME + 5 + 1 + obs.get('slack', 0)
    if obs['rekey_at'] is None:
        out.append(('no-rekey', 'IKE_SA never started its rekey (lifetime %d s)' % LIFETIME))
    elif not (lo - 0.001 <= obs['rekey_at'] <= hi + 0.001):
        out.append(('rekey-time', 'IKE_SA rekey started at %.0f s, allowed [%d, %d]' % (obs['rekey_at'], lo, hi)))
    if peer in ('answering', 'collides-once', 'answering-after-slow-handshake'):
        if obs['gone_at'] is None:
            out.append(('old-ike-sa-stays', 'rekeyed IKE_SA still held %d s later' % 70))
        if not any(st == 'ESTABLISHED' and n == 1 for st, n in obs['a_sas']):
            out.append(('no-successor', 'after the rekey A holds %s' % (obs['a_sas'],)))
    elif peer == 'silent':
        if obs['gone_at'] is None or obs['gone_at'] > hi + 20 + 2:
            out.append(('unanswered-rekey-not-given-up', 'IKE_SA gone at %s' % obs['gone_at']))
    elif peer == 'collides':
        # both sides rekey at the same moments and keep answering TEMPORARY_FAILURE: the IKE_SA must be deleted
        # 30 s after the rekey was due (plus a tick), unless a retry got through earlier
        if obs['gone_at'] is None or obs['gone_at'] > hi + 30 + 20 + 2:
            out.append(('not-deleted-after-failed-rekey', 'IKE_SA gone at %s, rekey due at %s' % (
                obs['gone_at'], obs['rekey_at'])))
    if obs['sad_diff'][0] or obs['sad_diff'][1]:
        out.append(('sad-mismatch', 'SAD and tracked CHILD_SAs differ at the end: %r' % (obs['sad_diff'],)))
    return out


def work_dpd(case):
    kind = case[0]
    if kind == 'dpd-childless':
        res = run_dpd_childless()
        return res, ('childless', not res)
    if kind == 'dpd':
        _, off, peer = case
        obs = run_dpd(off, peer)
        return judge_dpd(obs, peer), (len(obs['probes']), obs['gone_at'] is not None)
    _, a_hi, peer = case
    obs = run_lifetime(a_hi, peer)
    return judge_lifetime(obs, a_hi, peer), (obs['rekey_at'], obs['delete_at'] is not None, obs['gone_at'] is not None)


def dpd_cases():
    for off in range(0, DPD + 3):
        yield ('dpd', off, 'answering')
    yield ('dpd', 0, 'silent')
    yield ('dpd', 0, 'silent-with-noise')
    yield ('dpd', 0, 'silent-busy-sockets')
    for what in ('init-from-stranger', 'foreign-acquire', 'status-queries'):
        yield ('dpd', 0, 'silent-busy-sockets:' + what)
    yield ('dpd-childless', 0, 'silent')
    for a_hi in (False, True):
        for peer in ('answering', 'silent', 'collides', 'collides-once', 'answering-after-slow-handshake'):
            yield ('life', a_hi, peer)


# ------------------------------------------------------------------ part C: peer crash after every step

SESSION = [('acquire', 'A', 0, 0), 'drain', ('acquire', 'B', 0, 0), 'drain', ('soft', 'A'), 'drain', ('rekey', 'A'), 'drain',
           ('hard', 'B'), 'drain']


def session_events(w):
    """generator of the concrete events of the reference session (FIFO delivery)"""
    for item in SESSION:
        if item == 'drain':
            while w.net:
                yield ('deliver', w.net[0].id)
        elif item[0] == 'acquire':
            yield item
        elif item[0] in ('soft', 'hard'):
            ep = w.endpoints[item[1]]
            sa = next(s for s in ep.controller.ike_sas if s.child_sas and s.state == State.ESTABLISHED)
            yield ('expire', item[1], bytes(sa.child_sas[0].inbound_spi), item[0] == 'hard')
        elif item[0] == 'rekey':
            ep = w.endpoints[item[1]]
            i = next(i for i, s in enumerate(ep.controller.ike_sas) if s.state == State.ESTABLISHED)
            yield ('due', item[1], i, 'rekey_ike')


def run_crash(step_index, victim):
    c = S.base_confs(a_over={'dpd': DPD}, b_over={'dpd': DPD})
    w = S.new_world(c)
    gen = session_events(w)
    n = 0
    for ev in gen:
        if n == step_index:
            break
        w.step(ev)
        n += 1
    else:
        if n < step_index:
            return None
    survivor = 'B' if victim == 'A' else 'A'
    w.step(('crash', victim))
    for d in list(w.net):
        w.step(('deliver', d.id))          # what was already on the wire arrives (or is lost at the victim) now
    t_crash = w.clock
    had = len(w.endpoints[survivor].kernel.sad)
    horizon = DPD + 20 + 2
    empty_at = None if had else 0.0
    for k in range(1, horizon + 1):
        w.step(('tick', 1.0))
        for d in list(w.net):
            w.step(('deliver', d.id))      # delivered to the crashed peer = lost; to the survivor = late arrivals
        if empty_at is None and not w.endpoints[survivor].kernel.sad:
            empty_at = w.clock - t_crash
    s = w.endpoints[survivor]
    return dict(step=n, had=had, empty_at=empty_at, alive=s.alive, dead=s.dead_reason, sad=sorted(s.kernel.sad),
                sas=[(x.state.name, len(x.child_sas)) for x in s.controller.ike_sas] if s.alive else None, w=w)


def work_crash(case):
    k, victim = case
    obs = run_crash(k, victim)
    if obs is None:
        return None, None
    res = []
    if not obs['alive']:
        res.append(('survivor-died', 'the survivor died: %r' % (obs['dead'],)))
    elif obs['sad']:
        res.append(('sas-survive-peer-crash', 'peer %s crashed after step %d: %d s later the survivor still has kernel '
                    'SAs %s (IKE_SAs: %s)' % (victim, obs['step'], DPD + 22, obs['sad'], obs['sas'])))
    return res, (obs['had'] > 0, obs['empty_at'])


def session_length():
    w = S.new_world(S.base_confs())
    n = 0
    for ev in session_events(w):
        w.step(ev)
        n += 1
    return n


# ------------------------------------------------------------------ main

def replay(path):
    doc = jdec(json.load(open(path)))
    part, case = doc['part'], tuple(tuple(x) if isinstance(x, (list, tuple)) else x for x in doc['case'])
    res, outcome = {'retrans': work_retrans, 'dpd': work_dpd, 'crash': work_crash}[part](case)
    for r in res or ():
        print('reproduced:', r)
    print('REPLAY %s' % ('reproduces a violation' if res else 'does not reproduce'))
    sys.exit(1 if res else 0)


def main():
    if ck.args.replay:
        replay(ck.args.replay)
    evaluations = 0
    outcomes = collections.Counter()
    samples = []
    rc = list(retrans_cases())
    for case, (res, outcome) in zip(rc, ck.pmap(work_retrans, rc)):
        evaluations += 1
        outcomes[('retrans', case[0], outcome)] += 1
        for sig, msg in res:
            if case[1] == 'stale':
                ck.violation('retrans:%s:%s' % (sig, case[0]), '%s, request kind %s, second copies of all earlier answers arrive '
                             'while the request is outstanding, lost request transmissions %s, lost replies %s' % (
                                 msg, case[0], list(case[2]), list(case[3])), dict(part='retrans', case=case))
                continue
            if case[1] == 'outage':
                ck.violation('retrans:%s:%s:%s' % (sig, case[0], 'lasting' if len(case[2]) > 8 else 'sends-' + ''.join(map(str, case[2]))),
                             '%s, request kind %s; nothing A sends is answered and its sends number %s (0 = first retransmission) '
                             'fail with %s' % (msg, case[0], 'all' if len(case[2]) > 8 else list(case[2]), case[3]),
                             dict(part='retrans', case=case))
                continue
            if case[1] == 'coincide':
                ck.violation('retrans:%s:%s:tx%d' % (sig, case[0], case[2]), '%s, request kind %s; the answer to transmission %d '
                             'is the one that arrives' % (msg, case[0], case[2] + 1), dict(part='retrans', case=case))
                continue
            ck.violation('retrans:%s:%s:%s%s' % (sig, case[0], 'fine' if case[4] else 'coarse', ':one-way-loss' if len(case) > 5 else ''),
                         '%s, request kind %s, lost request transmissions %s, lost replies %s, ticks %s' % (
                             msg, case[0], list(case[1]), list(case[2]), list(case[3])), dict(part='retrans', case=case))
    samples.append(dict(part='retransmission', case=rc[37]))
    dc = list(dpd_cases())
    for case, (res, outcome) in zip(dc, ck.pmap(work_dpd, dc)):
        evaluations += 1
        outcomes[('dpd', case[0], case[2], outcome)] += 1
        for sig, msg in res:
            ck.violation('%s:%s:%s' % (case[0], sig, case[2]), '%s [case %r]' % (msg, case), dict(part='dpd', case=case))
    samples.append(dict(part='dpd/lifetime', case=dc[3]))
    n = session_length()
    cc = [(k, v) for k in range(n + 1) for v in ('A', 'B')]
    for case, (res, outcome) in zip(cc, ck.pmap(work_crash, cc)):
        if res is None:
            continue
        evaluations += 1
        outcomes[('crash', outcome[0], outcome[1] is not None)] += 1
        for sig, msg in res:
            ck.violation('crash:%s:%s' % (sig, case[1]), msg, dict(part='crash', case=case))
    samples.append(dict(part='crash', case=cc[5], session=[repr(x) for x in SESSION]))
    nontrivial = len(outcomes)
    ck.coverage.update(evaluations=evaluations, distinct_nontrivial=nontrivial,
                       rule='one evaluation = one complete deterministic run (virtual clock) of the two real daemons; '
                            'runs are grouped by (part, request kind, #transmissions observed, answered?, given up?) and '
                            'distinct_nontrivial counts the distinct groups observed',
                       samples=samples, exhaustive=True,
                       alphabet=dict(request_kinds=KINDS, lost_request_subsets=2 ** (MAXR if ck.quick else MAXR + 1),
                                     lost_reply_subsets=2 ** (MAXR if ck.quick else MAXR + 1), fine_tick=1.0,
                                     coarse_ticks=[7.0] if ck.quick else [3.0, 7.0, 25.0],
                                     dpd_offsets=list(range(0, DPD + 3)), jitter=['low', 'high'],
                                     crash_points=n + 1, crash_victims=['A', 'B']),
                       outcome_groups={repr(k): v for k, v in sorted(outcomes.items(), key=repr)})
    ck.assumptions += ['virtual clock; one main_loop sweep per endpoint per tick', 'dpd=%d s, IKE lifetime=%d s in the '
                       'DPD/lifetime runs' % (DPD, LIFETIME), 'retransmission spacing is judged under 1-second ticks only '
                       '(DESIGN.md section 5)']
    ck.finish()


if __name__ == '__main__':
    main()
