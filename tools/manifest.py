#!/usr/bin/env python3
"""Regenerates /verif/MANIFEST.json from the table below (kept in one place so that it stays valid).
usage: python3 tools/manifest.py"""
import json
import os

HERE = os.path.dirname(os.path.dirname(os.path.abspath(__file__)))
ALL = ['C%02d' % i for i in range(1, 21)]

MC = "explicit-state model checking of the implementation (BFS over real objects driven through main_loop, canonical state hashing)"
EX = "exhaustive small-scope enumeration of the input alphabet against an independent reference model"
TRUST = ("Trusted: harness seams (fake sockets/select/netlink/clock/random, harness/seams.py), the model kernel "
         "(harness/kernel.py), the canonical-state abstraction (spot-checked by one-step bisimulation), the reference "
         "models under ref/. Bounds completed are in the evidence file.")

CHECKS = {
    'C16': dict(level='model_checking', technique=MC, engine='world-explorer',
                text="Exhaustive breadth-first exploration of the implementation's own state graph (two or three real "
                     "controllers, model kernel, all delivery orders, bounded duplicates/losses/timeouts/triggers) with "
                     "table, routing and status monitors on every transition, plus an exhaustive header SPI/flag "
                     "injection sweep on representative states. State monitor on the loss / time-out scenario: once every timer has run out no IKE_SA is left waiting or DELETED; header-only IKE_SA_INIT requests (any flags / SPIs) must not touch the IKE_SAs already held. Status queries are events of one scenario pair (ESP / AH): their place in the history is part of the key and the status is compared after every transition."),
    'C09': dict(level='model_checking', technique=MC, engine='world-explorer',
                text="Exhaustive exploration of all interleavings of the local triggers (acquire, soft/hard expire, IKE "
                     "rekey/delete/DPD due) at both real endpoints with every delivery order (and one loss/duplicate), "
                     "three configurations (matching, INVALID_KE paths, refusing policies); on every transition: no "
                     "escape from main_loop, reference transition relation, RFC 7296 2.25 notifications; from every "
                     "state a lossless drain must end without outstanding request and with equal IKE_SA / CHILD_SA sets. Further monitors: M-queue (local events queued behind an exchange are replayed when its response is in), converse M-coll clause (no TEMPORARY_FAILURE while idle); scenarios with retransmission time-outs, simultaneous initiation (two IKE_SAs per endpoint) and rekey-after-refused-rekey histories."),
    'C10': dict(level='model_checking', technique=MC + " + exhaustive kernel-fault enumeration", engine='world-explorer',
                text="The C09 state space with the model SAD compared with the tracked CHILD_SAs after every transition "
                     "and after a drain from every state, plus one re-execution of every transition per XFRM_MSG_NEWSA "
                     "request with that request refused (ENOMEM, EEXIST). Also: every transition re-executed once per NEWSA / DELSA request with the netlink socket itself failing (OSError), followed by a timer sweep and a drain; and at every state of two smaller spaces what a peer other than pyikev2 may send (an authentic DELETE of any CHILD_SA on any IKE_SA held, a datagram arriving from another source address). M-del: a CHILD_SA deletion is only ever started for a reason. Plus m_sendfail (every transition re-executed once per datagram with that sendto() failing, timers, drain) and an ESP+AH connection in the give-up cases. Also: netlink answers left unread (recv failing after the request was carried out), two-fault linear cases, a restarted peer with INITIAL_CONTACT against five states of the old IKE_SA, foreign DELETEs naming the other protocol or deleting everything in one request."),
    'C08': dict(level='model_checking', technique=MC, engine='world-explorer',
                text="Per exchange kind (IKE_AUTH, CREATE_CHILD_SA new/rekey/IKE rekey incl. the INVALID_KE retry, "
                     "INFORMATIONAL delete child/IKE, DPD) and initiating role: every schedule of deliver / duplicate / "
                     "drop / reorder / retransmission time-out and one re-sent old datagram; window oracle on every "
                     "delivery (executed iff expected ID; previous ID -> byte-identical cached reply and no other "
                     "effect; else inert; responses only for the outstanding request) and header/ID oracle on every "
                     "emission. What is outstanding is read off the wire, not off IkeSa.request; the first copy of the answer to the outstanding request must have an effect. IKE_SA_INIT scenarios (plain, INVALID_KE retry, COOKIE) included. The initiator flag / SPI order of every emitted message is judged against who started the exchange that created the IKE_SA (read off the wire); IKE rekey by either end followed by an exchange on the new IKE_SA."),
    'C20': dict(level='model_checking', technique=MC + "; log monitor on every transition", engine='world-explorer',
                text="The C09 state space (three configurations incl. refusals), every transition re-executed with each "
                     "kernel request refused (internal-error branches), and failing handshakes (wrong PSK / identity / "
                     "method, no proposal, TS unacceptable): every record at INFO or above and everything written to "
                     "stderr is searched for every secret the harness knows (PSK, SKEYSEED recomputed independently, "
                     "SK_*, CHILD keys, DH secrets) raw, hex and repr; a verbose run proves the scanner finds each kind. Plus situations in which the daemon has something unusual to report (peer configured for another local address, PRF change across a rekey). Plus: texts of configuration errors for pre-shared keys of 12 shapes next to something broken elsewhere, and six peer-goes-silent situations (PSK and RSA). The real pyikev2.py run as a program over 24 configuration files; shutdown situations."),
    'C13': dict(level='fault_enumeration', technique="exhaustive enumeration of loss patterns, tick sequences and crash "
                "points over deterministic runs of the two real daemons under a virtual clock", engine='world-explorer',
                text="Every request kind (14, incl. COOKIE / INVALID_KE retries and the delete after an IKE rekey) x every "
                     "subset of lost request transmissions x every subset of lost replies under 1-second and coarse "
                     "ticks: byte-identical retransmissions, non-decreasing spacing, bounded count, give-up with "
                     "teardown, never re-sent once answered; DPD probe timing against the last authentic input with "
                     "peer traffic at every tick offset; IKE lifetime / rekey / delete timing at both jitter extremes "
                     "with answering, silent and colliding peers; peer crash after every step of a reference session; the answer "
                     "arriving in the very pass in which the timer of transmission k runs out; local send failures (every "
                     "subset of the retransmissions, and lasting); second copies of earlier answers while a retried request "
                     "is outstanding. Sockets kept busy by strangers' IKE_SA_INIT requests, foreign kernel ACQUIREs and status queries while timers are due; request kinds with a sibling IKE_SA running the same exchange. The fake select() honours its time-out argument."),
    'C03': dict(level='model_checking', technique=MC + "; exhaustive adversarial injection alphabet in every state", engine='world-explorer',
                text="In every state of the one-trigger exploration (both roles, every request-outstanding state, REKEYED, "
                     "the rekeyed successor, half-open) and for every IKE_SA with keys: forged cleartext of every exchange "
                     "type x request/response x Message ID relative to the window x body, bit flips / truncations / "
                     "extension of authentic messages, the same plaintext under other keys, reflection - each injected "
                     "through main_loop on a fork; the endpoint's complete snapshot (state, counters, CHILD_SAs, timers, "
                     "cached response, kernel SAD, netlink log) must be unchanged and nothing may be emitted. Every notification type the state machine reacts to is also injected alone in the clear (exchange x direction, expected ID). Every injection of every explored state is repeated on a world whose event loops are never left (harness/continuous.py); after the whole alphabet the session must continue as it does without it. Injections may come from another source port (non-ESP marker cases)."),
    'C17': dict(level='fault_enumeration', technique="exhaustive injection of a hostile corpus and of send / netlink "
                "failures at every position of a legitimate session run through the real main_loop", engine='world-explorer',
                text="Before every step of a legitimate two-endpoint session (initial exchanges, new CHILD, CHILD rekey, "
                     "IKE rekey, delete, DPD) each hostile item is injected through main_loop on a copy of the world: "
                     "short / structurally broken / oversized-count datagrams to live and unknown SPIs and as "
                     "IKE_SA_INIT requests, from the peer's and from a stranger's address, bit-flipped authentic "
                     "messages, well-protected but malformed messages from the authenticated peer, odd kernel events "
                     "and truncated netlink frames; sendto (gaierror / ENETUNREACH / EPERM) and netlink failures at "
                     "every call index. Oracle: main_loop is left only by the harness's stop exception, executed lines "
                     "per iteration stay under a cap, and the session completes (or, where the peer itself misbehaved, "
                     "a fresh negotiation succeeds after the time-outs). Also: 180 orders of the legitimate operations run without hostile input, genuine CREATE_CHILD_SA requests re-protected with other SPI sizes, a blind-sender clause (input naming no SPI in use must not disturb the session even from the peer's address), and a per-iteration watchdog so that a hanging daemon is reported and cannot hang the check. The kernel corpus includes genuine soft / hard EXPIREs of every SPI the daemon holds, at every position. Every hostile datagram is sent twice; every corpus case is repeated with the event loops never left."),
    'C04': dict(level='exploration', technique=EX + " (wire-only observer re-deriving every key)",
                text="Real two-endpoint exchanges for every PRF x INTEG x AES length x DH group, every CHILD suite with "
                     "and without PFS, rekey chains, nonce lengths / patterns and DH values with leading zero octets "
                     "(forced exponents); an observer that sees only the datagrams and the DH exponents re-derives "
                     "SKEYSEED, SK_*, KEYMAT and compares with IkeSa.ike_sa_keyring and the keys inside XFRM_MSG_NEWSA; "
                     "prf+ for all output lengths; MODP primes derived from their defining formula; RFC 5903 vectors. Also crossing CREATE_CHILD_SA exchanges (with and without PFS, on a rekeyed IKE_SA) and INVALID_KE_PAYLOAD retries in IKE_SA_INIT, CREATE_CHILD_SA and IKE_SA rekey for pairs of groups. Families refused-first (CHILD_SAs after the CHILD_SA of the initial exchanges was refused) and late-child-on-old (CREATE_CHILD_SA arriving on a replaced IKE_SA)."),
    'C11': dict(level='exploration', technique=EX,
                text="Complete products of local policies x peer proposals (incl. foreign ids, key-length variants, "
                     "two-proposal payloads) for Proposal.intersection / is_subset / _select_best_sa_proposal against a "
                     "declarative reference; 512+ real handshakes over all pairs of ENCR/DH preference lists at IKE and "
                     "CHILD level incl. NO_PROPOSAL_CHOSEN and the INVALID_KE_PAYLOAD round; 190 one-step rewrites of "
                     "authentic responses by a tampering responder. The end-to-end pairs continue through a history (two rekeys, negotiations started by the other side, IKE_SA rekey, one more CHILD_SA), each judged against the configured policies, with the clause that what is offered is the configured policy; PFS on one side only; an initiator that is not pyikev2 (several proposals per request with decoys before / after the genuine one) and responses with reordered transforms. Plus: proposals without ESN transform, the next offer after a tampered response, the CHILD_SA on an IKE_SA that lost all its CHILD_SAs, loaded policies unchanged after every foreign / tampered exchange."),
    'C14': dict(level='exploration', technique=EX + " (decoder compiled against the kernel UAPI headers)",
                text="Every netlink request the Xfrm API emits over the full product of the selector region and "
                     "pairwise-complete crosses with the other regions is decoded by a C program using <linux/xfrm.h> "
                     "and compared field by field with the intent; ACQUIRE / EXPIRE / ack / error frames encoded with "
                     "the kernel structures are decoded by Xfrm.parse_message / send_recv and compared."),
    'C12': dict(level='exploration', technique=EX,
                text="All 360 000 ordered selector pairs of a small IPv4/IPv6 universe for is_subset against packet-set "
                     "inclusion; every CIDR block of a /28 and /124 for the network conversions; _get_ipsec_configuration "
                     "on all TS lists of length <= 2 against all 1- and 2-entry policies; thousands of real handshakes "
                     "over network / port / protocol / mode relations judged on the selectors inside XFRM_MSG_NEWSA of "
                     "both model kernels; rekeys; 420 tampered responses re-protected with the responder's keys."),
    'C19': dict(level='exploration', technique=EX + " (all k-deviation inputs)",
                text="64 valid base dictionaries x every single deviation (quick) / every pair (thorough) of missing "
                     "keys and ill-typed / out-of-range / unknown values at connection, auth and protect-entry level: "
                     "Configuration() either raises ConfigurationError or loads; well-typed loads are compared field by "
                     "field with an independent reading (ref/confread.py). Plus: the Configuration object compared with the independent reading after every step of a session with all event kinds, look-up hits and misses on every loaded table (mixed families), non-RSA PEM keys, kinds of local addresses (link-local, loopback, unique-local). IPv6 identities with a dotted quad; requests on the daemon's other address first."),
    'C06': dict(level='exploration', technique=EX + "; termination decided by an exact executed-event budget (sys.monitoring), not a timeout",
                text="Complete enumeration of: every truncation and 5 mutations per octet of 31 authentic messages of all "
                     "exchange kinds (on the wire and on the plaintext, re-encrypted and re-MACed), every length / count "
                     "field at every nesting level x boundary values x next-payload octets, all small datagrams over an "
                     "octet alphabet, SK bodies of every length with a valid ICV, large repetitive datagrams; each under "
                     "header_only on/off and no / right / wrong keys. Outcome must be a Message or a protocol error; "
                     "executed events must stay under A + B*len + C*declared SPIs; a cap far above aborts a loop."),
    'C02': dict(level='model_checking', technique="exhaustive enumeration of adversary action sequences (bounded deviations) "
                "on the first four messages between two real endpoints, judged by an independent observer", engine='world-explorer',
                text="A network adversary rewrites (every header field, payload removal / duplication / reordering / "
                     "replacement, every SA substructure rewrite and downgrade, nonce / KE / SPI substitution, inserted "
                     "notifications, every single octet), drops, duplicates, replays or reflects one (thorough: two) of the "
                     "first four messages; 12 credential / identity / method mismatches; a full man in the middle running "
                     "DH with both sides and relaying or forging AUTH. Observer (own codec and key schedule): an endpoint "
                     "that ends up established or installs an SA accepted an AUTH that verifies under its configured "
                     "credential and identity over the peer's IKE_SA_INIT message as it saw it, its own nonce and "
                     "prf(SK_p, ID'), and what it saw means what the honest peer sent. Plus an honest initiator of another make offering two IKE proposals whose SA payload is rewritten on the path (6 rewritings), and two connections of one daemon towards one remote address on two local addresses set up one after the other with the right / the other connection's credentials. Also: AUTH data of other lengths than the PRF output, an initiator that starts over with the same SPI."),
    'C15': dict(level='model_checking', technique="exhaustive enumeration of configurations, ACQUIRE flows and restart points "
                "on real controllers over the model kernel", engine='world-explorer',
                text="90 configurations (1-2 connections incl. two local addresses with one peer, 1-2 protect entries, "
                     "IPv4/IPv6, ports, protocols, modes, ESP/AH, explicit and seam-chosen indexes): model SPD after "
                     "start-up == exactly out/in/fwd per entry, SAD empty, both empty after close(); ACQUIRE for every "
                     "outbound policy with flows at the corners of the entry, without / with an established IKE_SA / with "
                     "a sibling connection's IKE_SA: right peer, IKE_SA re-used, entry's proposal / mode / selectors / "
                     "lifetime installed; unknown index ignored; restart of either daemon after every step of a session; an ACQUIRE in the pass after the IKE_SA with that peer was given up; entries differing in one selector dimension; an entry added / removed between two incarnations. ACQUIRE after a send failure on a childless IKE_SA and after a CHILD_SA rekey by either end; shutdown with a request outstanding. ACQUIRE while the IKE_SA waits for the answer to a liveness check or its own rekey; start-up with a kernel error at every request index."),
    'C18': dict(level='exploration', technique=EX,
                text="Responder with 0..threshold+3 half-open IKE_SAs (threshold measured, not assumed) x request variants: "
                     "no cookie, exact cookie, every single-octet corruption, truncated / extended / empty, the exact cookie "
                     "with another SPI / nonce / (configured) source address, cookie lists; COOKIE-only reply, zero "
                     "DiffieHellman.from_group calls and unchanged table without the exact cookie. Initiator: COOKIE reply "
                     "once / twice / after the real reply, retry byte-compared, session completes with mirror SAs. Plus several IKE_SA_INIT requests read in one pass of the loop (world event `together`), half-open IKE_SAs of any age, the cookie kept across an INVALID_KE_PAYLOAD retry. Local events between filling and probing; the repeated request gets the full retransmission budget."),
    'C01': dict(level='model_checking', technique="exhaustive enumeration of configuration pairs and negotiation histories "
                "between two real endpoints; the two model SADs are compared after every negotiation", engine='world-explorer',
                text="IKE suites, CHILD suites x modes (ESP/AH, with and without PFS), IPv4/IPv6 x PSK/RSA x initiator, all "
                     "pairs of differing preference orders (incl. INVALID_KE_PAYLOAD retries), acquire flows at the edges of "
                     "the entry, and every sequence of up to 2 (thorough: 3) negotiations over {new CHILD, CHILD rekey, IKE "
                     "rekey} x {A, B} from plain / COOKIE / INVALID_KE starts: after each negotiation the SAs decoded from "
                     "both daemons' XFRM_MSG_NEWSA bytes must be the same set field by field (SPI, addresses, protocol, "
                     "mode, algorithms, key bytes, selectors), inbound/outbound selectors reversed, IKE key rings equal, and "
                     "the initiator-to-responder SA must carry the first KEYMAT keys (ref/keys.py). Histories may contain an authentic request that arrives from another source address."),
    'C05': dict(level='exploration', technique=EX,
                text="Full header product x payload lists up to length 2 (thorough 3) over 33 payload instances, in clear "
                     "and inside SK: to_bytes == independent encoder byte for byte, parse maps back, idempotence of "
                     "serialise-after-parse on every accepted mutated string, unknown non-critical skipped / critical "
                     "rejected / chain-end edits rejected, to_dict JSON-serialisable and lossless. One DEBUG dump per message also through COOKIE / INVALID_KE_PAYLOAD retries, retransmissions and rekeys."),
    'C07': dict(level='exploration', technique=EX,
                text="Every plaintext length modulo the block size x AES lengths x integrity algorithms x IVs dissected "
                     "independently (padding, Pad Length, ICV coverage and truncation); every octet x every bit, every "
                     "truncation / extension and 12 other integrity keys on representative protected messages of 11 "
                     "exchange kinds must raise a protocol error; every datagram emitted after IKE_SA_INIT in bounded "
                     "two-endpoint sessions (incl. error replies, collisions, retransmissions) is header + one SK payload."),
}

# filled in as checks are built; anything in ALL but not in CHECKS is listed under not_applicable
PENDING_REASON = "check not built yet (work in progress, see DESIGN.md section 3); not claimed in this commit"


def main():
    checks = []
    for pid in ALL:
        if pid not in CHECKS:
            continue
        c = CHECKS[pid]
        checks.append({
            "property_id": pid,
            "quick_cmd": "bin/check %s --tier quick" % pid,
            "thorough_cmd": "bin/check %s --tier thorough" % pid,
            "evidence_file": "evidence/%s.json" % pid,
            "replay_cmd_template": "bin/check %s --replay {path}" % pid,
            "engine": c.get('engine', 'enumerator'),
            "level_claimed": {"category": c['level'], "text": c['text'], "design_ref": "DESIGN.md section 3, %s" % pid},
            "level_note": c.get('note', TRUST),
            "technique": c['technique'],
        })
    served = lambda eng: [p for p in ALL if p in CHECKS and CHECKS[p].get('engine', 'enumerator') == eng]
    m = {
        "version": 1,
        "setup_cmd": "sh /verif/bin/setup",
        "hooks": {
            "guard": "PYIKEV2_VERIF",
            "enable": "no source hooks: the harness replaces module attributes of the imported repository modules at "
                      "run time (harness/seams.py); every check sets PYIKEV2_VERIF=1 for itself",
            "baseline_off_cmd": "cd /repo && /venv/bin/python -m pytest -ra -q -p no:cacheprovider --timeout=900 "
                                "--continue-on-collection-errors",
            "source_commits": [],
            "add_only": True,
        },
        "engines": [
            {"name": "world-explorer", "path": "harness/explorer.py", "serves_properties": served('world-explorer'),
             "kind_free_text": "hand-written explicit-state BFS over deep-copied worlds of real IkeSaController objects "
                               "driven through main_loop one iteration at a time; canonical state hashing with "
                               "renaming of random octet strings; one-step bisimulation spot checks of merges; replay "
                               "of histories on fresh worlds"},
            {"name": "enumerator", "path": "harness/enum.py", "serves_properties": served('enumerator'),
             "kind_free_text": "complete enumeration of small per-dimension alphabets (or all k-deviation inputs), "
                               "each case run on the real code and compared with an independent reference"},
        ],
        "checks": checks,
        "not_applicable": [{"property_id": p, "reason": PENDING_REASON} for p in ALL if p not in CHECKS],
        "notes": "All checks run the code in /repo's working tree at run time (nothing is cached). "
                 "known_findings.json lists genuine defects (fixed / known).",
    }
    with open(os.path.join(HERE, 'MANIFEST.json'), 'w') as f:
        json.dump(m, f, indent=1)
    print('MANIFEST.json: %d checks, %d not_applicable' % (len(checks), len(m['not_applicable'])))


if __name__ == '__main__':
    main()
