#!/usr/bin/env python3
"""Confirms a seeded change and runs checks against it.
usage: tools/seed_eval.py <property id> <mutant dir> [check ids ...]     (default checks: the property's own)
The mutant dir holds patch.diff, demo.py, README.md (written by an independent sub-agent in a scratch worktree).
Everything happens in a scratch copy of /repo under /tmp; /repo is never touched.  If the change is confirmed
(applies, the repository's tests give the baseline result, demo.py exits 0 without and non-zero with the patch)
it is kept as /verif/seeded/<id>/ with meta.json recording what was run and which checks reported a VIOLATION."""
import json
import os
import shutil
import subprocess
import sys
import tempfile

VERIF = os.path.dirname(os.path.dirname(os.path.abspath(__file__)))
TESTS = ['test_message.py', 'test_crypto.py', 'test_configuration.py', 'test_ikesa.py', 'test_ikesacontroller.py']
BASELINE = '8 failed, 170 passed'


def sh(cmd, cwd=None, env=None, timeout=3600):
    p = subprocess.run(cmd, shell=True, cwd=cwd, env=env, stdout=subprocess.PIPE, stderr=subprocess.STDOUT, timeout=timeout)
    return p.returncode, p.stdout.decode(errors='replace')


def main():
    prop, mdir = sys.argv[1], os.path.abspath(sys.argv[2])
    checks = sys.argv[3:] or [prop]
    name = '%s-%s' % (prop, os.path.basename(mdir.rstrip('/')))
    tmp = tempfile.mkdtemp(prefix='seed.')
    repo = os.path.join(tmp, 'repo')
    os.makedirs(repo)
    sh('git ls-files | tar cf - -T - | tar xf - -C %s' % repo, cwd='/repo')
    os.makedirs(os.path.join(repo, 'mutants'))
    shutil.copytree(mdir, os.path.join(repo, 'mutants', os.path.basename(mdir.rstrip('/'))))
    rel = os.path.join('mutants', os.path.basename(mdir.rstrip('/')))
    meta = dict(id=name, property=prop, source='independent sub-agent (given only the property text and a scratch worktree)')
    rc0, out0 = sh('/venv/bin/python %s/demo.py' % rel, cwd=repo, timeout=600)
    meta['demo_exit_without_patch'] = rc0
    rca, outa = sh('patch -p1 -s < %s/patch.diff' % rel, cwd=repo)
    meta['patch_applies'] = rca == 0
    if rca != 0:
        print('PATCH DOES NOT APPLY\n' + outa)
    rct, outt = sh('/venv/bin/python -m pytest -q -p no:cacheprovider --timeout=900 ' + ' '.join(TESTS), cwd=repo)
    last = outt.strip().splitlines()[-1] if outt.strip() else ''
    meta['repo_tests_with_patch'] = last
    meta['repo_tests_unchanged'] = BASELINE in last
    rc1, out1 = sh('/venv/bin/python %s/demo.py' % rel, cwd=repo, timeout=600)
    meta['demo_exit_with_patch'] = rc1
    meta['demo_output_with_patch'] = out1[-600:]
    confirmed = meta['patch_applies'] and rc0 == 0 and rc1 != 0 and meta['repo_tests_unchanged']
    meta['confirmed'] = confirmed
    results = {}
    env = dict(os.environ, PYIKEV2_REPO=repo, VERIF_OUT_DIR=os.path.join(tmp, 'out'))
    for c in checks:
        rc, out = sh('%s/bin/check %s --tier %s' % (VERIF, c, os.environ.get('TIER', 'quick')), env=env)
        sigs = [l.strip()[len('signature: '):] for l in out.splitlines() if l.strip().startswith('signature: ')]
        results[c] = dict(exit=rc, violations=sum(1 for l in out.splitlines() if l.startswith('VIOLATION')),
                          first_signatures=sigs[:3],
                          harness_error=[l for l in out.splitlines() if 'Traceback' in l or 'HarnessError' in l][:2])
    meta['checks'] = results
    meta['detected_by'] = sorted(c for c, r in results.items() if r['exit'] == 1 and r['violations'] > 0)
    try:
        readme = open(os.path.join(mdir, 'README.md')).read()
    except OSError:
        readme = ''
    meta['needs_to_manifest'] = readme[:1500]
    meta['ran'] = ['demo.py without / with patch', 'pytest ' + ' '.join(TESTS), 'bin/check <id> --tier quick with PYIKEV2_REPO=<patched copy>']
    print(json.dumps({k: v for k, v in meta.items() if k != 'needs_to_manifest'}, indent=1))
    if confirmed:
        dst = os.path.join(VERIF, 'seeded', name)
        os.makedirs(dst, exist_ok=True)
        for f in ('patch.diff', 'demo.py', 'README.md'):
            if os.path.exists(os.path.join(mdir, f)):
                shutil.copy(os.path.join(mdir, f), os.path.join(dst, f))
        old = {}
        mp = os.path.join(dst, 'meta.json')
        if os.path.exists(mp):
            old = json.load(open(mp))
            for c, r in old.get('checks', {}).items():
                meta['checks'].setdefault(c, r)
            meta['detected_by'] = sorted(c for c, r in meta['checks'].items() if r['exit'] == 1 and r['violations'] > 0)
        json.dump(meta, open(mp, 'w'), indent=1)
    shutil.rmtree(tmp, ignore_errors=True)


if __name__ == '__main__':
    main()
