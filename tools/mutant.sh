#!/bin/sh
# usage: tools/mutant.sh <patch-file> <check-id>...      (env TIER=quick|thorough, KEEP=1 keeps the copy)
# Applies the patch to a scratch copy of /repo (never to /repo), runs the repository's own tests there
# (must still pass for a valid seeded change) and then the named checks against the copy.
here="$(cd "$(dirname "$0")/.." && pwd)"
patch="$(realpath "$1")"; shift
dir="$(mktemp -d /tmp/mutant.XXXXXX)"
mkdir -p "$dir/repo" "$dir/out"
(cd /repo && git ls-files | tar cf - -T -) | tar xf - -C "$dir/repo"
if ! (cd "$dir/repo" && patch -p1 -s < "$patch"); then echo "PATCH-FAILED"; rm -rf "$dir"; exit 2; fi
tests=$(cd "$dir/repo" && /venv/bin/python -m pytest -q -p no:cacheprovider --timeout=900 test_message.py test_crypto.py test_configuration.py test_ikesa.py test_ikesacontroller.py 2>&1 | tail -1)
echo "repo-tests: $tests"
for id in "$@"; do
  out=$(PYIKEV2_REPO="$dir/repo" VERIF_OUT_DIR="$dir/out" "$here/bin/check" "$id" --tier "${TIER:-quick}" 2>&1); rc=$?
  echo "== $id exit=$rc  $(echo "$out" | grep -c '^VIOLATION') violation(s)"
  echo "$out" | grep -A2 '^VIOLATION' | head -${LINES_SHOWN:-9} | cut -c1-400
  echo "$out" | grep -i -E 'Traceback|HarnessError' | head -3
done
[ -n "$KEEP" ] && echo "kept $dir" || rm -rf "$dir"
