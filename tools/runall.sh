#!/bin/sh
# runs every check's quick tier (or TIER=thorough) and prints one summary line per check; exit 1 if any is not silent
cd "$(dirname "$0")/.."
rc=0
for i in 01 02 03 04 05 06 07 08 09 10 11 12 13 14 15 16 17 18 19 20; do
  out=$(bin/check C$i --tier "${TIER:-quick}" 2>&1); e=$?
  echo "$out" | grep -E "^(KNOWN-FINDING|VIOLATION)" | cut -c1-160
  echo "exit=$e $(echo "$out" | tail -1 | cut -c1-220)"
  [ $e -ne 0 ] && rc=1
done
exit $rc
