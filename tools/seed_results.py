#!/usr/bin/env python3
"""writes seeded/RESULTS.md from seeded/*/meta.json (+ seeded/NOTES.json and seeded/BUILDER_MUTANTS.md)"""
import glob
import json
import os

HERE = os.path.dirname(os.path.dirname(os.path.abspath(__file__)))
notes = {}
try:
    notes = json.load(open(os.path.join(HERE, 'seeded', 'NOTES.json')))
except OSError:
    pass
rows = []
for mp in sorted(glob.glob(os.path.join(HERE, 'seeded', '*', 'meta.json'))):
    m = json.load(open(mp))
    first = ''
    for c in m.get('detected_by', []):
        sigs = m['checks'][c].get('first_signatures') or ['']
        first = '%s: `%s`' % (c, sigs[0][:90])
        break
    what = (m.get('needs_to_manifest') or '').strip().splitlines()
    what = next((l for l in what if l and not l.startswith('#')), '')[:160]
    rows.append((m['id'], m['property'], ', '.join(m.get('detected_by', [])) or '**none**', first, notes.get(m['id'], ''), what))
out = ['# Seeded changes and which check reports them', '',
       'Each row is a change to pyikev2 written by an independent sub-agent that was given only the text of one property and a',
       'scratch worktree (nothing from /verif).  It was kept only after `tools/seed_eval.py` confirmed, in a scratch copy of',
       '/repo: the patch applies, the repository\'s own tests give the baseline result (8 failed / 170 passed without',
       'test_xfrm.py), the demonstration exits 0 without and non-zero with the patch.  "detected by" lists the checks (quick',
       'tier) that exit 1 with a VIOLATION line when run against the patched copy.', '',
       '| id | property | detected by | first signature | note |', '|---|---|---|---|---|']
for r in rows:
    out.append('| %s | %s | %s | %s | %s |' % (r[0], r[1], r[2], r[3], r[4]))
out += ['', '## What each change needs in order to manifest', '']
for r in rows:
    out.append('* **%s** – %s' % (r[0], r[5]))
try:
    out += ['', open(os.path.join(HERE, 'seeded', 'BUILDER_MUTANTS.md')).read()]
except OSError:
    pass
open(os.path.join(HERE, 'seeded', 'RESULTS.md'), 'w').write('\n'.join(out) + '\n')
print('%d seeded changes, %d undetected' % (len(rows), sum(1 for r in rows if r[2] == '**none**')))
